"""C10 - significant and bracketed durations locate threshold crossings exactly.

Engine T (input-history tree), exact oracle with tie classes (DESIGN.md section 3).

Every non-zero word over {-2..2} of length 1..L is a record.  For every dt, every ordered
fraction pair, se in {True, False} and every measure variant (array running sum of squares
`calc_sig_dur_vals`; `calc_sig_dur` with the default Arias intensity, with the user callable
`calc_cav`, with a hand-made inclusive staircase) the real code is run and its start / end are
compared with the indices of the first / last samples whose exact cumulative value lies
STRICTLY between the two fractions of the exact total.  Every comparison `cum_i ? f*total` is
evaluated in exact integer/rational arithmetic and classified: decided (must agree), exact tie
that survives floating point (strictness is demanded: the sample is NOT inside), or
rounding-level tie (either outcome accepted) - so the oracle is set-valued where, and only
where, double precision cannot decide.

Integer-typed records: the array variant is also run on the int64 array, and `calc_sig_dur` (Arias
default and the `calc_cav` callable) on an AccSignal built from the int64 array (every word) and from
a Python list of ints (words one level below the bound) - same record, same acceptance sets.

Relations (tree edges and metamorphic pairs): amplitude scaling by 2, -2, 3; prepending k zeros
(start and end shift by k*dt); nesting of fraction intervals; bracketed duration against the
exact exceedance set for seven thresholds (0, a tiny positive one, five on and around the sample
magnitudes, two of them within 1e-7 of the magnitude 1), its monotonicity in the threshold and the joint scaling of record and threshold - by
2, -2, 3 and, for every word and both se, by the factors 0.125 and 0.1 that bring the whole record
below 0.05 g (threshold 0 stays 0: the smallest allowed threshold on data where it selects something
no fixed positive level selects).  The relations that need extra executions (scaling, zero
prefix, joint scaling) are run for the words one level below the length bound (case['rel']);
nesting and threshold monotonicity use the base executions and are checked for every word.

Hidden tolerances and corners of the quantifier: the scaling relation also uses the factors 2**-30 (~1e-9) and
2**20 (~1e6) - powers of two, so every sum, product and comparison of the scaled record is the scaled exact one
and the acceptance sets (including the exact ties) are those of the word itself; the fraction pairs
(1e-7, 0.5), (0.5, 1-1e-7), (1e-7, 1-1e-7) next to the ends of the allowed range 0 < start < end < 1; bracketed
thresholds 1 -+ 1e-7 next to a sample magnitude.  Containers (words below the length bound): int8 and
(non-negative words) uint8 arrays for the array variant, an AccSignal holding the int8 record.

Objects with a history (the duration is that of the record the object holds NOW; words below the length
bound, like the other relations that need extra executions): one AccSignal per (word, dt) first holds another record one sample longer, then another record of the word's own length - on each of them
the duration functions are called, the public stat generators (generate_cumulative_stats,
generate_duration_stats, generate_all_motion_stats) are called and every lazy property is read - and is then
given the word with reset_values(); calc_sig_dur (default Arias and calc_cav) for every fraction pair and calc_brac_dur for every threshold are compared with the same acceptance sets as on a
fresh object.  A-B-A: after the same calls on a companion record (same length, same first and last sample,
interior changed) the default-pair result for the word is still the word's.  Default-option calls (no start / end / se / im) follow the explicit ones on the same object and
array; arguments are left unchanged (the array handed to calc_sig_dur_vals, the series a user measure returned).

Object-level statistics (words below the length bound).  The deprecated public generators
AccSignal.generate_duration_stats() / generate_all_motion_stats() store the significant-duration start / end of the
array variant with the default fractions (sd_start, sd_end, t_595 = end - start) and the bracketed durations at
0.01 g, 0.05 g and 0.1 g (t_b01, t_b05, t_b10) on the object.  For every word scaled by 2**-5 (weak record: PGA <=
0.01 g, nothing exceeds any level), 2**-4 (only the largest samples exceed 0.01 g) and 0.25 (strong: three
different exceedance sets), on a fresh object and on an object that held another (weak, one sample longer) record
with its statistics generated before reset_values(record): whenever the generator returns, sd_start / sd_end must
be readable and lie in the acceptance sets of the word (amplitude scaling by a power of two changes nothing),
t_595 must be their difference, and each t_bXX whose level some sample exceeds must be the time between the first
and last such samples (levels where 9.8 and 9.81 m/s2 for g select different samples are skipped; the value stored
when nothing exceeds a level is not constrained).  The generator must leave the record alone.  On NumPy >= 2 the
unchanged generator raises AttributeError (np.trapz) as soon as a sample exceeds 0.01 g - outside the properties,
counted under disabled_transitions - so there only the weak records are observable.

Zero prefix: the k*dt shift follows from the crossing definition exactly when the running
series of the measure is shift-covariant - always for the running sum of squares and the
staircase, for the trapezoid measures (Arias, calc_cav) iff the record starts at 0.  For
a[0] != 0 the prepended zero creates the panel between 0 and a[0]; there the prefixed record is
checked against the crossing definition itself (see the assumptions in build()).
"""
import itertools
import os
from fractions import Fraction

import numpy as np

from ..target import eqsig, im
from ..result import Res
from ..compare import words
from ..refs import im_ref

SIGMA = (-2, -1, 0, 1, 2)
DTS = (0.5, 0.01)
DYADIC_DT = {0.5: True, 0.01: False}
FRACS = ('0.05', '0.125', '0.25', '0.5', '0.75', '0.95')
FR_F = tuple(float(s) for s in FRACS)
FR_Q = tuple(Fraction(s) for s in FRACS)
PAIRS = tuple(itertools.combinations(range(len(FRACS)), 2))
# (narrow, wide): the wide interval contains the narrow one
NEST = tuple((p, q) for p, (i, j) in enumerate(PAIRS) for q, (i2, j2) in enumerate(PAIRS)
             if i2 <= i and j2 >= j and p != q)
POW2 = (False, True, True, True, False, False)       # fraction is a power of two
DYAD = (False, True, True, True, True, False)        # fraction is exact in binary
# ascending (the monotonicity relation pairs neighbours).  The two thresholds strictly between the sample
# magnitudes 0 < 1 < 2 are placed next to the magnitude 1 (1 -+ 1e-7, "nearly equal but different") instead of
# half way (0.5, 1.5 select the same samples)
THRESHOLDS = (0.0, 1e-12, 0.9999999, 1.0, 1.0000001, 2.0, 2.5)
# fraction pairs next to the ends of the allowed range (decided comparisons: relative gap 1e-7)
EDGE_FRACS = (('0.0000001', '0.5'), ('0.5', '0.9999999'), ('0.0000001', '0.9999999'))
EDGE_MEASURES = ('array', 'arias')
DEFAULT_PAIR = ('0.05', '0.95')      # documented defaults of start / end
# joint scaling of record and threshold by factors < 1 (bracketed duration only, every word, both se):
# 0.125 is exact in binary; 0.1 is not, but fl(c*|x|) == fl(c*th) whenever |x| == th, so exact ties
# stay exact ties of the scaled pair.  Peak of the scaled records: 0.25 resp. 0.2 m/s2 (< 0.05 g).
BRAC_SMALL = (0.125, 0.1)
INT_MEASURES = ('arias', 'cav')   # calc_sig_dur variants that read the record's own dtype
# 2**-30 (9.3e-10) and 2**20 (1.05e6): amplitude scaling is exact for powers of two, so the tie classes carry over
SCALES = (2.0, -2.0, 3.0, 2.0 ** -30, 2.0 ** 20)
# the two extreme factors are run on the library's own two cumulative series and on one user measure
EXTREME_MEASURES = ('array', 'arias', 'stair')
NARROW = (('i8', np.int8, lambda w: True), ('u8', np.uint8, lambda w: min(w) >= 0))
# the same pattern as counts near the top of a narrow / unsigned integer type (power-of-two factor: the tie classes carry over);
# squares leave the type
NARROW_SCALED = (('i8x32', np.int8, 32, lambda w: True), ('i16x8192', np.int16, 8192, lambda w: True),
                 ('i32x2^29', np.int32, 2 ** 29, lambda w: True), ('u8x64', np.uint8, 64, lambda w: min(w) >= 0),
                 ('u16x16384', np.uint16, 16384, lambda w: min(w) >= 0))
STAT_GENERATORS = ('generate_cumulative_stats', 'generate_duration_stats', 'generate_all_motion_stats',
                   'generate_displacement_and_velocity_series')
LAZY = ('time', 'npts', 'velocity', 'displacement', 'pga', 'pgv', 'pgd', 'arias_intensity', 'cav')
# object-level statistics: amplitude factors (powers of two: exact), generators, stored bracketed durations
STATS_SCALES = (2.0 ** -5, 2.0 ** -4, 0.25)      # peak of the alphabet: 0.0625 (<= 0.01 g), 0.125, 0.5 m/s2
STATS_PREV_SCALE = 2.0 ** -7                     # the record held before (values up to 7): weak as well
STATS_GENERATORS = ('generate_duration_stats', 'generate_all_motion_stats')
STATS_HISTORIES = ('fresh', 'other record (n+1), generator, reset_values')
STATS_LEVELS = (('t_b01', Fraction('0.01')), ('t_b05', Fraction('0.05')), ('t_b10', Fraction('0.1')))   # in g
G_READINGS = (Fraction('9.8'), Fraction('9.81'))
NO_TRAPZ = ('object-level statistics: the deprecated generator uses np.trapz, which this NumPy does not have '
            '(AttributeError for every record with a sample above 0.01 g; outside the properties)')
ZEROS = (1, 2, 3)
MEASURES = ('array', 'arias', 'cav', 'stair')
TRAPEZOID = ('arias', 'cav')     # running series built from panels between neighbouring samples
TT = 1e-9                        # times are compared to 1e-9 of the record duration
NOT_COVARIANT = ('zero-prefix shift: trapezoid measure of a record with a[0]!=0 is not shift-covariant '
                 '(checked against the crossing definition instead)')
# MC_C10_LITERAL_PREFIX=1 asserts the k*dt shift also where the running series is not shift-covariant
# (diagnostic: it can only make the check stricter, see the assumptions in build()).
LITERAL_ZERO_PREFIX = os.environ.get('MC_C10_LITERAL_PREFIX', '') == '1'


class _Stair(object):
    """A hand-made user measure: inclusive running sum of |a| (piecewise constant steps).  Like a caching
    user function it keeps the series it computed for an object and hands out that very array on every
    call; run_case() verifies at the end that nobody wrote into it (a query leaves its arguments alone)."""

    def __init__(self):
        self.store = {}

    def __call__(self, asig):
        k = id(asig)
        if k not in self.store:
            self.store[k] = (asig, np.cumsum(np.abs(np.asarray(asig.values, dtype=float))))   # keeps asig alive
        return self.store[k][1]


staircase = _Stair()


def _touch(sig):
    """Part of an object's history: the public (partly deprecated) methods that store derived data on the
    object, and a read of every lazy property.  Not under test here; whatever they do or raise, the
    durations evaluated afterwards must be those of the record the object holds then."""
    for nm in STAT_GENERATORS:
        try:
            getattr(sig, nm)()
        except Exception:   # noqa
            pass
    for nm in LAZY:
        try:
            getattr(sig, nm)
        except Exception:   # noqa
            pass


def _use(sig):
    for fn in (lambda: im.calc_sig_dur(sig), lambda: im.calc_sig_dur(sig, im=im.calc_cav, se=True),
               lambda: im.calc_brac_dur(sig, 0.5), lambda: im.calc_brac_dur(sig, 0.0, se=True)):
        try:
            fn()
        except Exception:   # noqa  (the other records of a history are not what is checked)
            pass
    _touch(sig)


def history_object(r, w, dt):
    """An AccSignal that held another record one sample longer, then another record of the word's own
    length (both used as in _use), and now holds the word."""
    other = [3 * x + 1 for x in reversed(w)]          # differs from w (3x+1 has no integer fixed point pairs)
    sub = {'w': w, 'dt': dt, 'history': 'other record (n+1), other record (n), reset_values(w)'}
    ok, sg = r.call('construct', sub, eqsig.AccSignal, np.array(other + [2], dtype=float), dt)
    if not ok:
        return None
    _use(sg)
    ok, _ = r.call('history.reset_values', sub, sg.reset_values, np.array(other, dtype=float))
    if not ok:
        return None
    _use(sg)
    ok, _ = r.call('history.reset_values', sub, sg.reset_values, np.array(w, dtype=float))
    return sg if ok else None


def object_stats(r, w, dt, acc, cnt):
    """Object-level statistics (see the module docstring): generators x amplitude factors x histories."""
    n = len(w)
    tol = TT * dt * max(n - 1, 1)
    a_w = np.array(w, dtype=float)
    prev = STATS_PREV_SCALE * np.array([3 * x + 1 for x in reversed(w)] + [2], dtype=float)
    for c in STATS_SCALES:
        a_c = c * a_w
        cq = Fraction(c)
        weak = all(cq * abs(x) <= STATS_LEVELS[0][1] * g for x in w for g in G_READINGS)
        exceed = []
        for attr, lvl in STATS_LEVELS:
            sets = [[i for i, x in enumerate(w) if cq * abs(x) > lvl * g] for g in G_READINGS]
            exceed.append((attr, sets[0] if sets[0] == sets[1] else None))
        for gen in STATS_GENERATORS:
            for hist in STATS_HISTORIES:
                sub = {'w': w, 'dt': dt, 'scale': c, 'generator': gen, 'object_history': hist}
                subf = lambda: sub  # noqa
                r.states += 1
                if hist == 'fresh':
                    ok, sg = r.call('construct', sub, eqsig.AccSignal, a_c.copy(), dt)
                    if not ok:
                        continue
                else:
                    ok, sg = r.call('construct', sub, eqsig.AccSignal, prev.copy(), dt)
                    if not ok:
                        continue
                    try:
                        getattr(sg, gen)()
                    except Exception:   # noqa  (the other record is not what is checked)
                        pass
                    r.transitions += 1
                    ok, _ = r.call('stats.reset_values', sub, sg.reset_values, a_c.copy())
                    if not ok:
                        continue
                r.evals += 1
                try:
                    getattr(sg, gen)()
                except Exception as e:  # noqa
                    if isinstance(e, AttributeError) and 'trapz' in str(e):
                        r.disabled[NO_TRAPZ] += 1
                        cnt['stats-generator-needs-np-trapz'] += 1
                    elif isinstance(e, IndexError) and acc.mode != 'must':
                        cnt['precondition-false-raises' if acc.mode == 'none' else 'rounding-tie-precondition-raises'] += 1
                    elif acc.mode == 'must':
                        r.evals -= 1
                        r.call('stats.sigdur', sub, _reraise, e)
                    continue
                cnt['stats-weak-record' if weak else 'stats-strong-record'] += 1
                cnt['stats-fresh-object' if hist == 'fresh' else 'stats-after-reset-values'] += 1
                if acc.mode != 'none':
                    try:
                        got = (sg.sd_start, sg.sd_end, sg.t_595)
                    except Exception as e:  # noqa
                        r.n_cmp += 1
                        r.fail('stats.sigdur', sub, 'the generator returned but sd_start / sd_end / t_595 cannot be '
                               'read: %s: %s' % (type(e).__name__, str(e)[:120]), expected=_expected(acc))
                        got = None
                    if got is not None:
                        cnt['stats-sigdur-checked'] += 1
                        g = check_pair(r, 'stats.sigdur', subf, got[:2], acc, dt, n)
                        d = check_dur(r, 'stats.t_595', subf, got[2], acc, dt, n)
                        if g is not None and d is not None:
                            r.expect('stats.t_595', sub, abs(d - (g[1] - g[0]) * dt) <= tol,
                                     't_595 is not sd_end - sd_start', observed=got)
                for attr, idx in exceed:
                    if idx is None:
                        cnt['stats-brac-level-depends-on-g'] += 1
                        continue
                    if not idx:
                        cnt['stats-brac-none-exceeds'] += 1      # the stored value is not constrained
                        continue
                    cnt['stats-brac-some-exceed'] += 1
                    d = scalar(getattr(sg, attr, None))
                    want = (idx[-1] - idx[0]) * dt
                    r.expect('stats.brac', dict(sub, attribute=attr), d is not None and abs(d - want) <= tol,
                             'stored bracketed duration is not the time between the first and last samples above the '
                             'level', observed=getattr(sg, attr, None), expected=want)
                try:
                    held = sg.values.tolist() == a_c.tolist() and float(sg.dt) == dt
                except Exception:   # noqa
                    held = False
                r.expect('purity.object', sub, held, 'the generator changed the record / dt of the object')


def build(tier, seed):
    L = 6 if tier == 'quick' else 8
    L_rel = L - 1
    cases = [{'w': list(w), 'rel': len(w) <= L_rel} for w in words(SIGMA, 1, L, nonzero=True)]
    # the durations of an object after EVERY public edit of its record (C04 alphabet, incl. the edits that rewrite the stored array in
    # place): those of the record it holds then
    cases += [{'kind': 'edited', 'w': list(w)} for w in words(SIGMA, 3, 3, nonzero=True) if len(set(w)) > 1]
    return {
        'rule_more': "anonymous / same-named user measures alternating on one object; 'edited' cases: every non-constant word of length 3 tiled to 30 samples, durations queried, the record edited by each mutator of the C04 alphabet, durations queried again vs the crossing definition on the values held then",
        'cases': cases,
        'rule': 'all non-zero words over {-2..2} of length 1..%d (one pool case per word) x dt in %s x all %d ordered '
                'fraction pairs from %s x se in {T,F} x measure in {array sum of squares (float64 and int64 record), '
                'Arias default, user callable calc_cav, user staircase}; Arias default and calc_cav also on an AccSignal '
                'holding the int64 record (all words, se=T) and built from a Python list of ints (length <= %d, se=T); '
                'bracketed duration x thresholds %s x se, and x joint scaling of record and threshold by %s for every '
                'word and both se; '
                'relations (scaling %s, %s prepended zeros, joint scaling) for words of length <= %d, nesting and '
                'threshold monotonicity for all (the scaling factors 2**-30 and 2**20 for the measures %s); '
                'additionally per (word, dt): fraction pairs %s for the array variant and the Arias default; '
                'default-option calls after the explicit ones; arguments unchanged; for length <= %d: array variant '
                'on int8 / uint8 (non-negative words) arrays, AccSignal holding the int8 record, and one AccSignal '
                'with a history (another record of length n+1, another record of length n, on both the duration '
                'functions, the stat generators and all lazy properties, then reset_values(word)): Arias default and '
                'calc_cav x all fraction pairs and calc_brac_dur x all thresholds; '
                'object-level statistics for length <= %d: generators %s x amplitude factors %s x histories %s: stored '
                'sd_start / sd_end / t_595 against the acceptance sets of the array variant with the default fractions, '
                'stored t_b01 / t_b05 / t_b10 against the exact exceedance sets where some sample exceeds the level; '
                'non-trivial = every enumerated word (none is identically zero)'
                % (L, list(DTS), len(PAIRS), list(FRACS), L_rel, list(THRESHOLDS), list(BRAC_SMALL), list(SCALES),
                   list(ZEROS), L_rel, list(EXTREME_MEASURES), [list(e) for e in EDGE_FRACS], L_rel, L_rel,
                   list(STATS_GENERATORS), list(STATS_SCALES), list(STATS_HISTORIES)),
        'bounds': {'alphabet': SIGMA, 'max_len': L, 'max_len_relations': L_rel, 'dt': DTS, 'fractions': FRACS,
                   'thresholds': THRESHOLDS, 'scales': SCALES, 'prepended_zeros': ZEROS, 'measures': MEASURES,
                   'bracketed_joint_scales_all_words': BRAC_SMALL, 'integer_record_measures': INT_MEASURES,
                   'integer_record_containers': ['int64 ndarray (all words)', 'list of Python ints (relation words)',
                                                 'int8 ndarray (relation words)'],
                   'integer_array_dtypes': ['int64', 'int8', 'uint8 (non-negative words)'],
                   'edge_fraction_pairs': EDGE_FRACS, 'edge_fraction_measures': EDGE_MEASURES,
                   'object_statistics_generators': STATS_GENERATORS, 'object_statistics_scales': STATS_SCALES,
                   'object_statistics_histories': STATS_HISTORIES,
                   'object_statistics_levels_in_g': [[a, float(q)] for a, q in STATS_LEVELS],
                   'history': 'other record 3*reversed(w)+1 (+ one sample 2), stat generators %s, lazy properties %s'
                              % (list(STAT_GENERATORS), list(LAZY))},
        'required_classes': ['durations-after-public-edit', 'decided', 'exact-tie', 'rounding-tie', 'exact-tie-lower', 'exact-tie-upper',
                             'precondition-false', 'precondition-false-raises', 'se-true', 'se-false',
                             'start-eq-end', 'start-lt-end', 'user-measure-differs-from-arias', 'user-measures-alternating-on-one-object',
                             'scaling', 'zero-prefix-shift', 'zero-prefix-definition', 'nesting',
                             'brac-some-exceed', 'brac-none-exceeds', 'brac-exact-tie', 'brac-monotone',
                             'brac-joint-scaling', 'int-input', 'int-record-i64', 'int-record-list',
                             'brac-tiny-threshold', 'brac-zero-threshold-below-0.05g', 'brac-monotone-scaled',
                             'scaling-tiny', 'scaling-huge', 'int-array-i8', 'int-array-u8', 'int-record-i8', 'int-array-i8x32', 'int-array-u16x16384',
                             'int-array-list', 'int-record-i16x8192',
                             'edge-fraction', 'edge-fraction-decided', 'default-options', 'history-object',
                             'brac-history-object', 'brac-threshold-next-to-sample', 'purity', 'a-b-a',
                             'one-sample', 'stats-weak-record', 'stats-fresh-object', 'stats-after-reset-values',
                             'stats-sigdur-checked'],
        'assumptions': [
            'sample values outside {-2..2}, lengths above the bound, dt / fractions / thresholds outside the menus '
            'are not examined',
            'reference: exact integer cumulative sums and rational thresholds (fractions.Fraction of the decimal '
            'literal); a comparison at an exact tie is demanded strict when it survives double precision (integer '
            'sums with binary fractions 0.125/0.25/0.5/0.75; calc_cav with dyadic dt; Arias with dyadic dt and a '
            'power-of-two fraction) and accepts both outcomes otherwise',
            'when the reference finds no sample strictly inside (precondition of the statement false) the call '
            'may raise IndexError and its result is not constrained',
            'amplitude-scaling invariance is asserted for homogeneous measures (all four used here); the factors '
            '2**-30 and 2**20 are powers of two, so the scaled record has exactly the scaled sums and the tie classes '
            'of the word carry over unchanged',
            'fraction pairs next to 0 and 1 (1e-7, 1-1e-7): every comparison has a relative gap >= 1e-7 and is '
            'demanded; an exact decimal coincidence would be accepted either way',
            'the duration functions describe the record the object holds now: an object that held other records '
            '(one of them of the same length) and had its stat generators called / lazy properties read gives the '
            'same result as a fresh one; the generators themselves are not checked (their exceptions are ignored)',
            'narrow / unsigned integer records are examined with the alphabet values and with the alphabet times a power of two that reaches '
            'the top of the type (int8 x32, int16 x8192, int32 x2^29, uint8 x64, uint16 x16384), and calc_sig_dur_vals is given a Python '
            'list (documented as array-like): squares used to be evaluated in the array dtype / raise TypeError (repaired in /repo)',
            'object-level statistics: sd_start / sd_end stored by generate_duration_stats (also through '
            'generate_all_motion_stats) are the significant-duration start / end of the array variant (running sum of '
            'squares) with the default fractions 0.05 / 0.95, t_595 their difference, t_b01 / t_b05 / t_b10 the bracketed '
            'durations at 0.01 / 0.05 / 0.1 g; checked whenever the generator returns (IndexError where no sample is '
            'strictly inside is the documented report; AttributeError from the missing np.trapz on NumPy >= 2 for records '
            'above 0.01 g is outside the properties and counted as disabled).  What is stored when nothing exceeds a level '
            'is not constrained; levels for which g = 9.8 and g = 9.81 m/s2 select different samples are skipped',
            'a query leaves its arguments unchanged: the array given to calc_sig_dur_vals, the object, and the '
            'series returned by a user measure (the staircase measure hands out its own stored array)',
            'zero-prefix shift by k*dt is asserted where the exact running series of the measure is shift-covariant '
            '(always for the running sum of squares and the staircase; for the trapezoid measures Arias / calc_cav '
            'iff the record starts at 0).  For a trapezoid measure of a record with a[0] != 0 the prepended zero '
            'adds the panel between 0 and a[0], the running series of the new record is not the shifted series, '
            'and the crossing definition (first clause of the statement) contradicts a pure shift; there the '
            'prefixed record is checked against the crossing definition instead (counted under '
            'disabled_transitions)',
            'bracketed duration with no exceedance: 0 for se=False, (None, None) for se=True',
            'an AccSignal built from an integer-typed container (int64 array, list of Python ints) holds the same '
            'record as the one built from the float array: same acceptance sets, same claims',
            'joint scaling by 0.125 / 0.1: the expected exceedance set is that of the integer word with the unscaled '
            'threshold (exact); the scaled sample and the scaled threshold are the same double whenever |a| equals '
            'the threshold, so strictness at exact ties is demanded as for the unscaled pair',
        ],
    }


# ---------------------------------------------------------------------------------------------
def cum_reference(w):
    """Exact cumulative series of the four measures, each up to a positive constant factor
    (dt, dt/2, pi/(2*9.81)) that cancels in `cum_i ? f*cum_last`."""
    sq = [x * x for x in w]
    ab = [abs(x) for x in w]
    arr = list(itertools.accumulate(sq))                       # running sum of squares
    stair = list(itertools.accumulate(ab))                     # inclusive running sum of |a|
    arias = [0]
    cav = [0]
    for i in range(1, len(w)):
        arias.append(arias[-1] + sq[i] + sq[i - 1])            # 2/dt * trapezoid(a^2)
        cav.append(cav[-1] + ab[i] + ab[i - 1])                # 2/dt * trapezoid(|a|)
    return {'array': arr, 'arias': arias, 'cav': cav, 'stair': stair}


def tie_exact(measure, dyadic_dt, fi):
    if measure in ('array', 'stair'):
        return DYAD[fi]
    if measure == 'cav':
        return dyadic_dt and DYAD[fi]
    return dyadic_dt and POW2[fi]


class Acc(object):
    """Acceptance sets of one (record, measure, dt class, fraction pair)."""
    __slots__ = ('mode', 'starts', 'ends', 'exact_lo', 'exact_hi', 'amb')

    def shifted(self, k):
        a = Acc()
        a.mode = self.mode
        a.starts = frozenset(i + k for i in self.starts)
        a.ends = frozenset(i + k for i in self.ends)
        a.exact_lo, a.exact_hi, a.amb = self.exact_lo, self.exact_hi, self.amb
        return a


def acceptance(cum, measure, dyadic_dt):
    """{pair index: Acc} for one exact cumulative series."""
    signs = [im_ref.threshold_signs(cum, q) for q in FR_Q]
    out = []
    for (i, j) in PAIRS:
        out.append(_acc_of(signs[i], signs[j], tie_exact(measure, dyadic_dt, i), tie_exact(measure, dyadic_dt, j)))
    return out


def acceptance_edge(cum):
    """Acceptance sets for the fraction pairs next to the ends of (0, 1); a tie there (only possible through
    decimal coincidences) is never demanded."""
    return [_acc_of(im_ref.threshold_signs(cum, Fraction(lo)), im_ref.threshold_signs(cum, Fraction(hi)), False, False)
            for lo, hi in EDGE_FRACS]


def _acc_of(sg_lo, sg_hi, ex_lo, ex_hi):
    """Acceptance sets from the exact sign lists of the lower / upper fraction; ex_*: a tie with that
    fraction survives floating point (strictness demanded), otherwise both outcomes are accepted."""
    inside, tie_lo, tie_hi = im_ref.crossing_sets(sg_lo, sg_hi)
    amb = ([] if ex_lo else tie_lo) + ([] if ex_hi else tie_hi)
    a = Acc()
    a.exact_lo = bool(tie_lo) and ex_lo
    a.exact_hi = bool(tie_hi) and ex_hi
    a.amb = bool(amb)
    if inside:
        a.mode = 'must'
        a.starts = frozenset([inside[0]] + [t for t in amb if t < inside[0]])
        a.ends = frozenset([inside[-1]] + [t for t in amb if t > inside[-1]])
    elif amb:
        a.mode = 'may'          # the precondition itself is a rounding-level tie
        a.starts = frozenset(amb)
        a.ends = frozenset(amb)
    else:
        a.mode = 'none'
        a.starts = a.ends = frozenset()
    return a


def call_impl(measure, arr, sig, dt, s, e, se):
    if measure == 'array':
        return im.calc_sig_dur_vals(arr, dt, start=s, end=e, se=se)
    if measure == 'arias':
        return im.calc_sig_dur(sig, start=s, end=e, se=se)
    if measure == 'cav':
        return im.calc_sig_dur(sig, start=s, end=e, im=im.calc_cav, se=se)
    return im.calc_sig_dur(sig, start=s, end=e, im=staircase, se=se)


def decode_times(out, dt, n):
    """(i0, i1, t0, t1) if out is a pair of sample times, else None."""
    try:
        t0, t1 = out
        t0 = float(t0)
        t1 = float(t1)
        i0 = int(round(t0 / dt))
        i1 = int(round(t1 / dt))
    except Exception:
        return None
    tol = TT * dt * max(n - 1, 1)
    if abs(t0 - i0 * dt) > tol or abs(t1 - i1 * dt) > tol:
        return None
    return i0, i1, t0, t1


def scalar(out):
    try:
        if np.ndim(out) != 0 or isinstance(out, (bool, np.bool_)):
            return None
        d = float(out)
        return d if d == d and abs(d) != float('inf') else None
    except Exception:
        return None


def _expected(acc):
    return [sorted(acc.starts), sorted(acc.ends)]


# The helpers below take `subf`, a zero-argument callable building the JSON-able identification
# of the input; it is only evaluated when a violation has to be recorded (hot path).
def check_pair(r, claim, subf, out, acc, dt, n):
    """se=True result against the acceptance sets; returns (i0, i1) or None."""
    r.n_cmp += 2
    dec = decode_times(out, dt, n)
    if dec is None:
        r.fail(claim, subf(), 'result is not a (start, end) pair of sample times', observed=out,
               expected=_expected(acc))
        return None
    i0, i1, t0, t1 = dec
    if not (i0 in acc.starts and i1 in acc.ends and i0 <= i1):
        r.fail(claim, subf(), 'start/end sample index not at the first/last sample strictly inside',
               observed=[i0, i1], expected=_expected(acc))
    dur = (n - 1) * dt
    if not (0.0 <= t0 <= t1 <= dur * (1 + 1e-12)):
        r.fail('sigdur.bounds', subf(), 'not 0 <= start <= end <= duration', observed=[t0, t1], expected=[0.0, dur])
    return i0, i1


def check_dur(r, claim, subf, out, acc, dt, n):
    r.n_cmp += 2
    d = scalar(out)
    if d is None:
        r.fail(claim, subf(), 'se=False result is not a finite scalar duration', observed=out)
        return None
    tol = TT * dt * max(n - 1, 1)
    ok = False
    for a in acc.starts:
        for b in acc.ends:
            if b >= a and abs(d - (b - a) * dt) <= tol:
                ok = True
    if not ok:
        r.fail(claim, subf(), 'duration is not end - start of the crossing samples', observed=d,
               expected=sorted(set((b - a) * dt for a in acc.starts for b in acc.ends if b >= a)))
    if not (-tol <= d <= (n - 1) * dt + tol):
        r.fail('sigdur.bounds', subf(), 'duration outside [0, record duration]', observed=d,
               expected=[0.0, (n - 1) * dt])
    return d


def _reraise(e):
    raise e


def guarded(r, claim, subf, mode, cnt, fn, *args):
    """Run the implementation.  mode 'must': any exception is a violation.  mode 'may' / 'none':
    IndexError is the documented way of reporting that nothing lies strictly inside."""
    r.evals += 1
    try:
        return True, fn(*args)
    except Exception as e:  # noqa
        if mode == 'must' or (mode == 'may' and not isinstance(e, IndexError)):
            r.evals -= 1
            r.call(claim, subf(), _reraise, e)      # records 'raises ...' with the eqsig location
        elif isinstance(e, IndexError):
            cnt['precondition-false-raises' if mode == 'none' else 'rounding-tie-precondition-raises'] += 1
        return False, None


def run_edited(case):
    """durations queried, the record edited through one public method, durations queried again: the answers are those of the record
    the object holds now.  Oracle: the exact crossing definition evaluated on the values read back from the object (brute force in
    float64 on the library-independent running sums; ties are avoided by the irregular record)."""
    from . import c04
    r = Res()
    w = [float(v) for v in case['w']]
    r.nontrivial += 1
    base = np.array([w[i % 3] * (1.0 + 0.37 * ((i * 7) % 5)) + 0.011 * i for i in range(30)])
    ops, kind = c04.build_ops('AccSignal')
    dt = 0.01
    thr = 0.35 * float(np.max(np.abs(base)))

    def queries(sg):
        return (im.calc_brac_dur(sg, thr, se=True), im.calc_brac_dur(sg, 0.0), im.calc_sig_dur(sg, se=True),
                im.calc_sig_dur(sg, start=0.25, end=0.75, im=im.calc_cav, se=True))
    for name, op in ops.items():
        if kind[name][0] != 'mut':
            continue
        sub = {'w': case['w'], 'history': ['durations', name, 'durations']}
        r.states += 1
        try:
            sg = eqsig.AccSignal(base.copy(), dt)
            sg._mc_n0 = len(base)
            queries(sg)
        except Exception as e:
            r.fail('edited.call', sub, 'raises %s: %s' % (type(e).__name__, str(e)[:150]))
            continue
        try:
            op(sg)
        except Exception:
            r.disabled['edited: the edit raises (%s)' % name] += 1
        try:
            now = np.array(sg.values, dtype=float)
            got = queries(sg)
        except Exception as e:
            r.fail('edited.call', sub, 'durations after the edit raise %s: %s' % (type(e).__name__, str(e)[:150]))
            continue
        # reference on the values the object holds now
        n = len(now)
        t = np.arange(n) * dt
        above = np.nonzero(np.abs(now) > thr)[0]
        want_brac = (t[above[0]], t[above[-1]]) if len(above) else (None, None)
        nz = np.nonzero(np.abs(now) > 0.0)[0]
        want_b0 = (t[nz[-1]] - t[nz[0]]) if len(nz) else 0
        sq = now ** 2
        arias = np.concatenate([[0.0], np.cumsum((sq[1:] + sq[:-1]) / 2.0)])
        cav = np.concatenate([[0.0], np.cumsum((np.abs(now[1:]) + np.abs(now[:-1])) / 2.0)])

        def crossing(cum, lo, hi):
            tot = cum[-1]
            inside = [i for i in range(n) if lo * tot * (1 + 1e-9) < cum[i] < hi * tot * (1 - 1e-9)]
            amb = [i for i in range(n) if (abs(cum[i] - lo * tot) <= 1e-9 * tot) or (abs(cum[i] - hi * tot) <= 1e-9 * tot)]
            return inside, amb
        r.transitions += 1
        r.cls('durations-after-public-edit')
        r.n_cmp += 4
        try:
            ok_b = (got[0] == want_brac) or (want_brac[0] is not None and got[0][0] is not None
                                            and abs(got[0][0] - want_brac[0]) <= 1e-9 and abs(got[0][1] - want_brac[1]) <= 1e-9)
        except Exception:
            ok_b = False
        if not ok_b:
            r.fail('edited.bracketed', sub, 'bracketed duration after the edit is not that of the record the object holds now',
                   observed=got[0], expected=want_brac)
        try:
            ok_0 = abs(float(got[1]) - float(want_b0)) <= 1e-9
        except Exception:
            ok_0 = got[1] == want_b0
        if not ok_0:
            r.fail('edited.bracketed', dict(sub, threshold=0), 'bracketed duration (threshold 0) after the edit is not that of the record the object holds now',
                   observed=got[1], expected=want_b0)
        for gi, cum, lo, hi, mname in ((2, arias, 0.05, 0.95, 'arias'), (3, cav, 0.25, 0.75, 'cav')):
            inside, amb = crossing(cum, lo, hi)
            if amb or not inside:
                r.disabled['edited: crossing at a rounding-level tie / nothing inside'] += 1
                continue
            try:
                ok_s = abs(got[gi][0] - t[inside[0]]) <= 1e-9 and abs(got[gi][1] - t[inside[-1]]) <= 1e-9
            except Exception:
                ok_s = False
            if not ok_s:
                r.fail('edited.significant', dict(sub, measure=mname), 'significant duration after the edit is not that of the record the object holds now',
                       observed=got[gi], expected=(t[inside[0]], t[inside[-1]]))
    return r


def run_case(case):
    if case.get('kind') == 'edited':
        return run_edited(case)
    r = Res()
    w = list(case['w'])
    with_rel = bool(case.get('rel', True))
    n = len(w)
    r.nontrivial += 1
    cnt = r.classes
    if n == 1:
        cnt['one-sample'] += 1
    a_f = np.array(w, dtype=float)
    a_i = np.array(w, dtype=np.int64)
    int_arrays = [('i64', a_i)] + [(tag, np.array(w, dtype=dt_)) for tag, dt_, fits in NARROW if with_rel and fits(w)]
    held_by = {tag: list(w) for tag, _ in int_arrays}
    if with_rel:
        for tag, dt_, k, fits in NARROW_SCALED:
            if fits(w):
                int_arrays.append((tag, (a_i * k).astype(dt_)))
                held_by[tag] = [int(x) * k for x in w]
        int_arrays.append(('list', [int(x) for x in w]))       # documented as array-like
        held_by['list'] = list(w)
    staircase.store.clear()
    cum = cum_reference(w)
    acc_by = {}
    for m in MEASURES:
        for dy in (True, False):
            acc_by[(m, dy)] = acceptance(cum[m], m, dy)
    acc_edge = {m: acceptance_edge(cum[m]) for m in EDGE_MEASURES}
    p_def = PAIRS.index((FRACS.index(DEFAULT_PAIR[0]), FRACS.index(DEFAULT_PAIR[1])))
    # the user measures must be distinguishable from the default one somewhere
    for p in range(len(PAIRS)):
        ar = acc_by[('arias', False)][p]
        for m in ('cav', 'stair'):
            um = acc_by[(m, False)][p]
            if ar.mode == 'must' and um.mode == 'must' and not (ar.starts & um.starts and ar.ends & um.ends):
                cnt['user-measure-differs-from-arias'] += 1
    for dt in DTS:
        dy = DYADIC_DT[dt]
        ok, sig = r.call('construct', {'w': w, 'dt': dt}, eqsig.AccSignal, a_f.copy(), dt)
        if not ok:
            continue
        tol = TT * dt * max(n - 1, 1)
        # the same record held with an integer dtype: int64 array, list of Python ints
        int_sigs = []
        for tag, make in (('i64', lambda: a_i.copy()), ('list', lambda: [int(x) for x in w]),
                          ('i8', lambda: np.array(w, dtype=np.int8)), ('i8x32', lambda: (a_i * 32).astype(np.int8)),
                          ('i16x8192', lambda: (a_i * 8192).astype(np.int16))):
            if tag != 'i64' and not with_rel:
                continue
            ok, sg = r.call('construct', {'w': w, 'dt': dt, 'container': tag}, eqsig.AccSignal, make(), dt)
            if ok:
                int_sigs.append((tag, sg))
        # ------------------------------------------------------------ significant duration
        for m in MEASURES:
            accs = acc_by[(m, dy)]
            got_idx = {}
            got_dur = {}
            claim_t = 'sigdur.crossing.' + m
            claim_f = 'sigdur.se-false.' + m
            for p, (i, j) in enumerate(PAIRS):
                acc = accs[p]
                mode = acc.mode
                s, e = FR_F[i], FR_F[j]
                if mode == 'must':
                    cnt['rounding-tie' if acc.amb else ('exact-tie' if (acc.exact_lo or acc.exact_hi) else 'decided')] += 1
                    if acc.exact_lo:
                        cnt['exact-tie-lower'] += 1
                    if acc.exact_hi:
                        cnt['exact-tie-upper'] += 1
                elif mode == 'may':
                    cnt['rounding-tie'] += 1
                else:
                    cnt['precondition-false'] += 1
                r.states += 2
                # se=True
                subf = lambda: {'w': w, 'dt': dt, 'measure': m, 'start': FRACS[i], 'end': FRACS[j], 'se': True}  # noqa
                ok, out = guarded(r, claim_t, subf, mode, cnt, call_impl, m, a_f, sig, dt, s, e, True)
                if ok and mode != 'none':
                    g = check_pair(r, claim_t, subf, out, acc, dt, n)
                    if g is not None:
                        got_idx[p] = g
                        cnt['start-eq-end' if g[0] == g[1] else 'start-lt-end'] += 1
                # se=False
                subf = lambda: {'w': w, 'dt': dt, 'measure': m, 'start': FRACS[i], 'end': FRACS[j], 'se': False}  # noqa
                ok, out = guarded(r, claim_f, subf, mode, cnt, call_impl, m, a_f, sig, dt, s, e, False)
                if ok and mode != 'none':
                    d = check_dur(r, claim_f, subf, out, acc, dt, n)
                    if d is not None:
                        got_dur[p] = d
                if m == 'array':
                    # the same record as an integer array (int64, int8, uint8 where the values fit)
                    for tag, a_int in int_arrays:
                        r.states += 1
                        cnt['int-array-' + tag] += 1
                        subf = lambda: {'w': w, 'dt': dt, 'measure': 'array-' + tag, 'start': FRACS[i],  # noqa
                                        'end': FRACS[j], 'se': True}
                        ok, out = guarded(r, claim_t, subf, mode, cnt, call_impl, m, a_int, None, dt, s, e, True)
                        if ok and mode != 'none':
                            check_pair(r, claim_t, subf, out, acc, dt, n)
                if m in INT_MEASURES:
                    for tag, sg in int_sigs:
                        r.states += 1
                        cnt['int-record-' + tag] += 1
                        subf = lambda: {'w': w, 'dt': dt, 'measure': m + '-' + tag, 'start': FRACS[i],  # noqa
                                        'end': FRACS[j], 'se': True}
                        ok, out = guarded(r, claim_t, subf, mode, cnt, call_impl, m, None, sg, dt, s, e, True)
                        if ok and mode != 'none':
                            check_pair(r, claim_t, subf, out, acc, dt, n)
            cnt['se-true'] += len(PAIRS)
            cnt['se-false'] += len(PAIRS)
            if m == 'array':
                cnt['int-input'] += len(PAIRS)
            # widening the fraction interval never shortens it
            claim = 'sigdur.nesting.' + m
            for p, q in NEST:
                gp = got_idx.get(p)
                gq = got_idx.get(q)
                if gp is not None and gq is not None:
                    r.transitions += 1
                    r.n_cmp += 1
                    cnt['nesting'] += 1
                    if not (gq[0] <= gp[0] and gq[1] >= gp[1]):
                        r.fail(claim, {'w': w, 'dt': dt, 'measure': m, 'narrow': [FRACS[k] for k in PAIRS[p]],
                                       'wide': [FRACS[k] for k in PAIRS[q]], 'se': True},
                               'wider fraction interval gives a later start or an earlier end',
                               observed={'narrow': gp, 'wide': gq})
                dp = got_dur.get(p)
                dq = got_dur.get(q)
                if dp is not None and dq is not None:
                    r.n_cmp += 1
                    if not dq >= dp - tol:
                        r.fail(claim, {'w': w, 'dt': dt, 'measure': m, 'narrow': [FRACS[k] for k in PAIRS[p]],
                                       'wide': [FRACS[k] for k in PAIRS[q]], 'se': False},
                               'wider fraction interval gives a shorter duration', observed={'narrow': dp, 'wide': dq})
        # ------------------------------------------------------------ fractions next to 0 and 1
        for m in EDGE_MEASURES:
            for q, (lo, hi) in enumerate(EDGE_FRACS):
                acc = acc_edge[m][q]
                r.states += 1
                cnt['edge-fraction'] += 1
                if acc.mode == 'must' and len(acc.starts) == 1 and len(acc.ends) == 1:
                    cnt['edge-fraction-decided'] += 1
                subf = lambda: {'w': w, 'dt': dt, 'measure': m, 'start': lo, 'end': hi, 'se': True}  # noqa
                ok, out = guarded(r, 'sigdur.crossing.' + m, subf, acc.mode, cnt, call_impl, m, a_f, sig, dt,
                                  float(lo), float(hi), True)
                if ok and acc.mode != 'none':
                    check_pair(r, 'sigdur.crossing.' + m, subf, out, acc, dt, n)
        # ------------------------------------------------------------ default options after explicit ones
        for m, fns in (('array', (lambda: im.calc_sig_dur_vals(a_f, dt), lambda: im.calc_sig_dur_vals(a_f, dt, se=True))),
                       ('arias', (lambda: im.calc_sig_dur(sig), lambda: im.calc_sig_dur(sig, se=True)))):
            acc = acc_by[(m, dy)][p_def]
            for se, fn in zip((None, True), fns):
                r.states += 1
                cnt['default-options'] += 1
                subf = lambda: {'w': w, 'dt': dt, 'measure': m, 'start': None, 'end': None, 'se': se,  # noqa
                                'defaults': list(DEFAULT_PAIR)}
                ok, out = guarded(r, 'sigdur.defaults.' + m, subf, acc.mode, cnt, fn)
                if ok and acc.mode != 'none':
                    (check_pair if se else check_dur)(r, 'sigdur.defaults.' + m, subf, out, acc, dt, n)
        # ------------------------------------------------------------ object with a history
        sig_h = history_object(r, w, dt) if with_rel else None
        if sig_h is not None:
            for m in INT_MEASURES:
                accs = acc_by[(m, dy)]
                claim = 'sigdur.history.' + m
                for p, (i, j) in enumerate(PAIRS):
                    acc = accs[p]
                    r.transitions += 1
                    cnt['history-object'] += 1
                    subf = lambda: {'w': w, 'dt': dt, 'measure': m, 'start': FRACS[i], 'end': FRACS[j], 'se': True,  # noqa
                                    'history': 'other record (n+1), other record (n), stat generators, reset_values(w)'}
                    ok, out = guarded(r, claim, subf, acc.mode, cnt, call_impl, m, None, sig_h, dt, FR_F[i], FR_F[j], True)
                    if ok and acc.mode != 'none':
                        check_pair(r, claim, subf, out, acc, dt, n)
        # ------------------------------------------------------------ object-level statistics
        if with_rel:
            object_stats(r, w, dt, acc_by[('array', dy)][p_def], cnt)
        # ------------------------------------------------------------ relations
        scaled = []
        if with_rel:
            for c in SCALES:
                a_c = c * a_f
                ok, sig_c = r.call('construct', {'w': w, 'dt': dt, 'scale': c}, eqsig.AccSignal, a_c.copy(), dt)
                if not ok:
                    continue
                scaled.append((c, sig_c))
                for m in (MEASURES if 1e-6 < abs(c) < 1e5 else EXTREME_MEASURES):
                    accs = acc_by[(m, dy)]
                    claim = 'sigdur.scaling.' + m
                    for p, (i, j) in enumerate(PAIRS):
                        acc = accs[p]
                        if acc.mode == 'none':
                            continue
                        r.transitions += 1
                        cnt['scaling' if 1e-6 < abs(c) < 1e5 else 'scaling-tiny' if abs(c) < 1 else 'scaling-huge'] += 1
                        subf = lambda: {'w': w, 'dt': dt, 'measure': m, 'start': FRACS[i], 'end': FRACS[j], 'scale': c}  # noqa
                        ok, out = guarded(r, claim, subf, acc.mode, cnt, call_impl, m, a_c, sig_c, dt, FR_F[i], FR_F[j], True)
                        if ok:
                            check_pair(r, claim, subf, out, acc, dt, n)
            for k in ZEROS:
                wk = [0] * k + w
                a_k = np.array(wk, dtype=float)
                ok, sig_k = r.call('construct', {'w': w, 'dt': dt, 'zeros': k}, eqsig.AccSignal, a_k.copy(), dt)
                if not ok:
                    continue
                cum_k = None
                for m in MEASURES:
                    covariant = (m not in TRAPEZOID) or w[0] == 0
                    if covariant or LITERAL_ZERO_PREFIX:
                        accs = [a.shifted(k) for a in acc_by[(m, dy)]]
                        claim = 'sigdur.zero-prefix.' + m
                        tag = 'zero-prefix-shift'
                    else:
                        if cum_k is None:
                            cum_k = cum_reference(wk)
                        accs = acceptance(cum_k[m], m, dy)
                        claim = 'sigdur.crossing.' + m
                        tag = 'zero-prefix-definition'
                    for p, (i, j) in enumerate(PAIRS):
                        acc = accs[p]
                        if acc.mode == 'none':
                            continue
                        r.transitions += 1
                        cnt[tag] += 1
                        if not covariant:
                            r.disabled[NOT_COVARIANT] += 1
                        subf = lambda: {'w': w, 'dt': dt, 'measure': m, 'start': FRACS[i], 'end': FRACS[j], 'zeros': k}  # noqa
                        ok, out = guarded(r, claim, subf, acc.mode, cnt, call_impl, m, a_k, sig_k, dt, FR_F[i], FR_F[j], True)
                        if ok:
                            check_pair(r, claim, subf, out, acc, dt, n + k)
        # ------------------------------------------------------------ bracketed duration
        small = []
        for c in BRAC_SMALL:
            ok, sg = r.call('construct', {'w': w, 'dt': dt, 'scale': c}, eqsig.AccSignal, c * a_f, dt)
            if ok:
                small.append((c, sg))
        durs = {}
        for th in THRESHOLDS:
            idx = im_ref.exceed_indices(w, Fraction(th))
            if any(abs(x) == th for x in w):
                cnt['brac-exact-tie'] += 1
            if 0.0 < th < 1e-6:
                cnt['brac-tiny-threshold'] += 1
            cnt['brac-some-exceed' if idx else 'brac-none-exceeds'] += 1
            if 0.0 < abs(th - 1.0) < 1e-6:
                cnt['brac-threshold-next-to-sample'] += 1
            for c, sg in [(1.0, sig)] + scaled + small + ([('history', sig_h)] if sig_h is not None else []):
                if c == 'history':
                    # the object with a history holds the word itself: same exceedance set
                    r.transitions += 1
                    cnt['brac-history-object'] += 1
                    sub = {'w': w, 'dt': dt, 'threshold': th, 'se': True,
                           'history': 'other record (n+1), other record (n), stat generators, reset_values(w)'}
                    ok, out = r.call('brac.history', sub, im.calc_brac_dur, sg, th, se=True)
                    if ok:
                        if idx:
                            dec = decode_times(out, dt, n)
                            r.expect('brac.history', sub, dec is not None and (dec[0], dec[1]) == (idx[0], idx[-1]),
                                     'start/end are not the first/last samples whose |a| exceeds the threshold',
                                     observed=out, expected=[idx[0] * dt, idx[-1] * dt])
                        else:
                            okn = isinstance(out, (tuple, list)) and len(out) == 2 and out[0] is None and out[1] is None
                            r.expect('brac.history', sub, okn, 'nothing exceeds the threshold: expected (None, None)',
                                     observed=out, expected=[None, None])
                    continue
                both = c == 1.0 or c in BRAC_SMALL
                if th == 0.0 and c in BRAC_SMALL and idx:
                    cnt['brac-zero-threshold-below-0.05g'] += 1     # peak of the scaled record <= 0.25 m/s2
                for se in ((True, False) if both else (True,)):
                    sub = {'w': w, 'dt': dt, 'threshold': th, 'se': se}
                    if c == 1.0:
                        r.states += 1
                        claim = 'brac.crossing' if idx else 'brac.none'
                    else:
                        r.transitions += 1
                        cnt['brac-joint-scaling'] += 1
                        sub['scale'] = c
                        claim = 'brac.joint-scaling'
                    ok, out = r.call(claim, sub, im.calc_brac_dur, sg, abs(c) * th, se=se)
                    if not ok:
                        continue
                    if se:
                        if idx:
                            dec = decode_times(out, dt, n)
                            r.expect(claim, sub, dec is not None and (dec[0], dec[1]) == (idx[0], idx[-1]),
                                     'start/end are not the first/last samples whose |a| exceeds the threshold',
                                     observed=out, expected=[idx[0] * dt, idx[-1] * dt])
                        else:
                            okn = isinstance(out, (tuple, list)) and len(out) == 2 and out[0] is None and out[1] is None
                            r.expect(claim, sub, okn, 'nothing exceeds the threshold: expected (None, None)',
                                     observed=out, expected=[None, None])
                    else:
                        d = scalar(out)
                        want = (idx[-1] - idx[0]) * dt if idx else 0.0
                        r.expect(claim, sub, d is not None and abs(d - want) <= tol,
                                 'duration is not the time between the first and last exceeding samples',
                                 observed=out, expected=want)
                        durs.setdefault(c, []).append((th, d))
        for c, lst in durs.items():
            for (t1, d1), (t2, d2) in zip(lst, lst[1:]):
                if d1 is None or d2 is None:
                    continue
                r.transitions += 1
                cnt['brac-monotone' if c == 1.0 else 'brac-monotone-scaled'] += 1
                sub = {'w': w, 'dt': dt, 'thresholds': [t1, t2]}
                if c != 1.0:
                    sub['scale'] = c        # record c*w, thresholds c*t1 <= c*t2
                r.expect('brac.monotone', sub, d2 <= d1 + tol,
                         'bracketed duration increases with the threshold', observed=[d1, d2])
        # ------------------------------------------------------------ A-B-A
        # the same calls on a companion record B (same length, same first and last sample, every interior sample
        # changed) and then on A again: the answer for A is still A's
        if with_rel and n >= 3:
            comp = [w[0]] + [(x + 3) % 5 - 2 for x in w[1:-1]] + [w[-1]]
            a_b = np.array(comp, dtype=float)
            ok, sig_b = r.call('construct', {'w': w, 'dt': dt, 'companion': comp}, eqsig.AccSignal, a_b.copy(), dt)
            for m, arr_b in (('array', a_b), ('arias', None)):
                acc = acc_by[(m, dy)][p_def]
                s0, e0 = float(DEFAULT_PAIR[0]), float(DEFAULT_PAIR[1])
                try:
                    call_impl(m, arr_b, sig_b, dt, s0, e0, True)
                except Exception:   # noqa  (B is checked in its own pool case)
                    pass
                r.transitions += 1
                cnt['a-b-a'] += 1
                subf = lambda: {'w': w, 'dt': dt, 'measure': m, 'start': DEFAULT_PAIR[0], 'end': DEFAULT_PAIR[1],  # noqa
                                'se': True, 'after_companion': comp}
                ok, out = guarded(r, 'sigdur.a-b-a.' + m, subf, acc.mode, cnt, call_impl, m, a_f, sig, dt, s0, e0, True)
                if ok and acc.mode != 'none':
                    check_pair(r, 'sigdur.a-b-a.' + m, subf, out, acc, dt, n)
        # ------------------------------------------------------------ arguments are left alone
        cnt['purity'] += 1
        r.expect('purity.array-argument', {'w': w, 'dt': dt},
                 a_f.dtype == np.float64 and a_f.tolist() == [float(x) for x in w]
                 and all((a if isinstance(a, list) else a.tolist()) == held_by[t_] for t_, a in int_arrays),
                 'the array handed to calc_sig_dur_vals was modified', observed=a_f, expected=w)
        try:
            held = sig.values.tolist() == [float(x) for x in w] and float(sig.dt) == dt
        except Exception:   # noqa
            held = False
        r.expect('purity.object', {'w': w, 'dt': dt}, held, 'the queries changed the record / dt of the object')
    # ---- several anonymous and same-named user measures on ONE object, alternating (anything the library keeps between two
    #      requests must be told apart by the measure itself, not by the function's name or by the object)
    if n >= 2:
        def _mk(kind):          # two anonymous functions
            if kind == 'stair':
                return lambda s_: np.cumsum(np.abs(np.asarray(s_.values, dtype=float)))
            return lambda s_: np.cumsum(np.asarray(s_.values, dtype=float) ** 2)

        def _mk2(kind):         # two functions of the same name (closures of one factory)
            if kind == 'stair':
                def measure(s_):
                    return np.cumsum(np.abs(np.asarray(s_.values, dtype=float)))
            else:
                def measure(s_):
                    return np.cumsum(np.asarray(s_.values, dtype=float) ** 2)
            return measure
        p_sel = sorted(set([p_def, 0, len(PAIRS) - 1, len(PAIRS) // 2]))
        for dt in DTS:
            dy = DYADIC_DT[dt]
            for vname, mk in (('two lambdas', _mk), ('two functions of one name', _mk2)):
                ok, sg2 = r.call('construct', {'w': w, 'dt': dt}, eqsig.AccSignal, a_f.copy(), dt)
                if not ok:
                    continue
                fns = {'stair': mk('stair'), 'array': mk('array')}
                for step, kind in enumerate(('stair', 'array', 'stair', 'array')):
                    for p in p_sel:
                        i, j = PAIRS[p]
                        acc = acc_by[(kind, dy)][p]
                        subf = lambda: {'w': w, 'dt': dt, 'start': FRACS[i], 'end': FRACS[j], 'se': True, 'same_object': vname,  # noqa
                                        'request': step + 1, 'measure': 'anonymous-' + kind}
                        r.states += 1
                        ok, out = guarded(r, 'sigdur.user-measures-one-object', subf, acc.mode, cnt, im.calc_sig_dur, sg2,
                                          FR_F[i], FR_F[j], fns[kind], True)
                        if ok and acc.mode != 'none':
                            cnt['user-measures-alternating-on-one-object'] += 1
                            check_pair(r, 'sigdur.user-measures-one-object', subf, out, acc, dt, n)
    for asig, series in staircase.store.values():
        try:
            fresh = np.cumsum(np.abs(np.asarray(asig.values, dtype=float)))
            same = series.shape == fresh.shape and bool(np.all(series == fresh))
        except Exception:   # noqa
            same = False
        r.expect('purity.user-series', {'w': w, 'values': asig.values}, same,
                 'the series returned by the user measure was modified by calc_sig_dur', observed=series)
    staircase.store.clear()
    return r


def snippet(case, v):
    sub = v.get('sub') or {}
    return ("import numpy as np, eqsig\nfrom eqsig import im\n"
            "sub = %r\n"
            "a = np.array([0] * sub.get('zeros', 0) + sub['w'], float) * sub.get('scale', 1.0)\n"
            "s = eqsig.AccSignal(a, sub['dt'])\n"
            "if 'history' in sub:   # the object held two other records before (n+1 and n samples)\n"
            "    other = [3 * x + 1 for x in reversed(sub['w'])]\n"
            "    s = eqsig.AccSignal(np.array(other + [2], float), sub['dt'])\n"
            "    for rec in (np.array(other, float), a):\n"
            "        im.calc_sig_dur(s); im.calc_brac_dur(s, 0.5); s.generate_cumulative_stats(); s.velocity; s.pga\n"
            "        s.reset_values(rec)\n"
            "if 'generator' in sub:   # object-level statistics\n"
            "    if sub['object_history'] != 'fresh':\n"
            "        s = eqsig.AccSignal(2.0 ** -7 * np.array([3 * x + 1 for x in reversed(sub['w'])] + [2], float), sub['dt'])\n"
            "        getattr(s, sub['generator'])(); s.reset_values(a)\n"
            "    getattr(s, sub['generator'])()\n"
            "    print({k: getattr(s, k, 'MISSING') for k in ('sd_start', 'sd_end', 't_595', 't_b01', 't_b05', 't_b10')})\n"
            "    print('calc_sig_dur_vals', im.calc_sig_dur_vals(a, sub['dt'], se=True))\n"
            "stair = lambda q: np.cumsum(np.abs(q.values))\n"
            "if 'after_companion' in sub:   # the same calls on the companion record first\n"
            "    b = np.array(sub['after_companion'], float)\n"
            "    im.calc_sig_dur_vals(b, sub['dt'], se=True); im.calc_sig_dur(eqsig.AccSignal(b, sub['dt']), se=True)\n"
            "ths = sub['thresholds'] if 'thresholds' in sub else [sub['threshold']] if 'threshold' in sub else []\n"
            "for th in ths:\n"
            "    print(th, im.calc_brac_dur(s, abs(sub.get('scale', 1.0)) * th, se=sub.get('se', False)))\n"
            "prs = [(sub['start'], sub['end'])] if 'start' in sub else [sub['narrow'], sub['wide']] if 'wide' in sub else []\n"
            "for f0, f1 in prs:\n"
            "    m, _, cont = sub['measure'].partition('-')\n"
            "    kw = {} if f0 is None else {'start': float(f0), 'end': float(f1)}   # None: documented defaults\n"
            "    if sub.get('se') is not None or f0 is not None: kw['se'] = sub.get('se', True)\n"
            "    CONT = {'i64': (np.int64, 1), 'i8': (np.int8, 1), 'u8': (np.uint8, 1), 'i8x32': (np.int8, 32), 'i16x8192': (np.int16, 8192),\n"
            "            'i32x2^29': (np.int32, 2 ** 29), 'u8x64': (np.uint8, 64), 'u16x16384': (np.uint16, 16384)}\n"
            "    if cont in CONT: a = (a.astype(np.int64) * CONT[cont][1]).astype(CONT[cont][0])\n"
            "    if cont == 'list': a = [int(x) for x in a]\n"
            "    if cont: s = eqsig.AccSignal(a, sub['dt'])\n"
            "    if m.startswith('array'): print(kw, im.calc_sig_dur_vals(a, sub['dt'], **kw))\n"
            "    else: print(kw, im.calc_sig_dur(s, im={'arias': None, 'cav': im.calc_cav, 'stair': stair}[m], **kw))\n"
            % (sub,))
