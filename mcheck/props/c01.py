"""C01 - SDOF response series is the exact solution of the oscillator equation.

Engine T x G: every non-zero record over {-1,0,1} up to the length bound (plus a few named long
families, reported separately) x dt x T/dt x xi x period-list shape x three entry points,
compared sample by sample with a 40-digit closed-form solution (mcheck/refs/sdof_ref.py) under
exactly the tolerance the property states.
"""
import sys

import numpy as np

from ..target import eqsig, sdof
from ..result import Res
from ..compare import words
from ..refs import sdof_ref as ref

CASE_TIMEOUT = 600
LO, HI = 0.2, 2e4

Q_DT = (1e-9, 0.005, 0.01, 1.0)
Q_RATIO = (0.2, 0.5, 1, 2, 5.9, 6, 10, 20, 100, 1000, 2000, 5000, 2e4)
Q_XI = (0.0, 0.01, 0.05, 0.2, 0.5, 0.9, 0.99, 0.9999)
T_DT = (1e-9, 0.005, 0.01, 0.02, 0.25, 1.0)
T_RATIO = (0.2, 0.21, 0.5, 1, 2, 3, 5.9, 6, 10, 20, 50, 100, 1000, 2000, 5000, 1e4, 1.5e4, 2e4)
T_XI = (0.0, 1e-4, 0.01, 0.05, 0.2, 0.5, 0.9, 0.99, 0.999, 0.9995, 0.999999)


def long_record(name, n):
    if name == 'hat':
        return [0.0, 1.0] + [0.0] * (n - 2)
    if name == 'step':
        return [1.0] * n
    if name == 'alt':
        return [1.0 if i % 2 == 0 else -1.0 for i in range(n)]
    raise ValueError(name)


def build(tier, seed):
    bad = ref.witness()
    if bad:
        sys.stderr.write('C01: the 40-digit oracle failed its own witness check:\n  ' + '\n  '.join(bad) + '\n')
        sys.exit(2)
    quick = tier == 'quick'
    L = 4 if quick else 6
    dts = Q_DT if quick else T_DT
    cases = []
    for w in words((-1, 0, 1), 2, L, nonzero=True):
        for dt in dts:
            cases.append({'rec': list(w), 'dt': dt, 'tier': tier})
    fams = [('hat', 50), ('hat', 500), ('step', 50), ('alt', 200)]
    if not quick:
        fams += [('hat', 3000), ('step', 3000)]
    for name, n in fams:
        for dt in ((0.01,) if quick else (0.01, 1.0)):
            cases.append({'fam': name, 'n': n, 'dt': dt, 'tier': tier})
    for xi in (0.0, 0.02):
        cases.append({'kind': 'seq', 'xi': xi, 'n': 1500 if quick else 4000, 'tier': tier})
    return {
        'rule_more': 'two pool cases (xi = 0, 0.02) of requests that follow each other in one process / on one object: (dt, T) pairs that agree to six significant figures without being equal (0.01 vs 0.01(1+4e-7), 1/120 vs 0.00833333, 1/3 vs 0.333333) on a record of 1500 / 4000 samples, and one period array edited in place between requests (doubled, first entry set to 0 and to another period), each answer against the 40-digit solution',
        'cases': cases,
        'rule': 'all non-zero records over {-1,0,1} of length 2..%d (+ named long families hat/step/alternating, not counted as '
                'exhaustive) x dt %s (one pool case per record x dt) x T/dt %s x xi %s x period-list shape {[T],[0,T],[T,2T,T/2]} x entry point '
                '{response_series(ndarray), nigam_and_jennings_response(list), AccSignal.response_series}; every sample of u and v '
                'against the 40-digit solution; non-trivial = record x dt with a non-zero exact response'
                % (L, list(dts), list(Q_RATIO if quick else T_RATIO), list(Q_XI if quick else T_XI)),
        'bounds': {'alphabet': [-1, 0, 1], 'max_len': L, 'dt': dts, 'T_over_dt': Q_RATIO if quick else T_RATIO,
                   'xi': Q_XI if quick else T_XI, 'long_families': fams},
        'required_classes': ['T<6dt', 'T>=6dt', 'T<dt', 'xi=0', 'xi>=0.9', 'leading-zero', 'multi-period', 'long-family',
                             'entry:response_series', 'entry:nigam', 'entry:object', 'entry:object-reused', 'entry:object-defaults', 'dtype-variant', 'period-dtype-variant', 'request-sequence', 'period-array-edited-in-place'],
        'assumptions': ['oracle: 40-digit closed-form per-step solution (mpmath), witnessed by a longdouble evaluation and by the ODE residual',
                        'dt, T/dt and xi only on the finite menus; record values in {-1,0,1}',
                        'errors are normalised by the peak of the exact series; where that fails, by the peak of the exact continuous-time '
                        'response (never smaller), evaluated lazily'],
    }


def entry_points(rec, dt, periods, xi, shared):
    a = np.array(rec, dtype=float)
    p = np.array(periods, dtype=float)
    yield 'response_series', lambda: sdof.response_series(a, dt, p, xi)
    yield 'nigam', lambda: sdof.nigam_and_jennings_response(list(rec), dt, list(periods), xi)
    yield 'object', lambda: eqsig.AccSignal(a, dt).response_series(response_times=p, xi=xi)
    # one long-lived object per (record, dt): every (periods, xi) request of the case goes through the same AccSignal, so
    # a result that depends on an earlier request on that object (memoised series, sticky damping or periods) shows up
    if 'asig' not in shared:
        shared['asig'] = eqsig.AccSignal(a, dt)
    yield 'object-reused', lambda: shared['asig'].response_series(response_times=p, xi=xi)
    if xi == 0.05:
        # the object's defaults: periods given at construction, damping left at its documented default of 5 %
        yield 'object-defaults', lambda: eqsig.AccSignal(a, dt, response_times=p).response_series()


def compare_with_oracle(r, claim, sub, out, rec, dt, periods, xi):
    """u and v rows of `out` against the 40-digit solution for every positive period of `periods` (tolerance of the statement relative to the
    peak of the exact continuous-time response); a leading zero period: zero rows and the sign-flipped record."""
    n = len(rec)
    recf = np.array(rec, dtype=float)
    try:
        u, v, a3 = (np.asarray(x, dtype=float) for x in out)
        assert u.shape == v.shape == a3.shape == (len(periods), n), 'shapes %r %r %r' % (u.shape, v.shape, a3.shape)
    except Exception as e:
        r.fail(claim + '.shape', sub, 'expected three arrays of shape (%d, %d): %s' % (len(periods), n, e), observed=out)
        return
    for j, p_ in enumerate(periods):
        s2 = dict(sub, row=j)
        if p_ == 0:
            r.expect(claim + '.leading-zero', s2, j == 0 and bool(np.all(u[0] == 0) and np.all(v[0] == 0))
                     and bool(np.all(np.abs(a3[0] + recf) <= 1e-15 * float(np.max(np.abs(recf))))),
                     'row of T = 0 is not (0, 0, -record)', observed=(u[0], v[0], a3[0]))
            continue
        U, V = ref.exact_series(rec, dt, p_, xi)
        uf, vf = ref.to_float(U), ref.to_float(V)
        tol = ref.tolerance(dt, p_, n)
        cp = ref.continuous_peaks_f64(rec, dt, p_, xi, uf, vf)
        for nm, got, ex_f, cpk in (('u', u[j], uf, float(cp[0])), ('v', v[j], vf, float(cp[1]))):
            r.n_cmp += 1
            if not np.all(np.isfinite(got)):
                r.fail(claim + '.' + nm, s2, 'non-finite value in the %s series' % nm, observed=got)
                continue
            d = float(np.max(np.abs(got - ex_f)))
            if d > tol * cpk + 4e-16 * float(np.max(np.abs(ex_f))):
                r.fail(claim + '.' + nm, s2, '%s differs from the exact solution by %.3e (= %.3g x tolerance %.3e x peak %.3e)'
                       % (nm, d, d / (tol * cpk) if cpk > 0 else float('inf'), tol, cpk), observed=got, expected=ex_f)


NEAR = 1 + 4e-7


def run_sequences(case):
    """Requests that follow each other in one process / on one object.  (a) time steps and periods that agree to six significant figures
    without being equal (0.01 and 0.01 (1 + 4e-7); 1/120 and 0.00833333; 1/3 and 0.333333), each answered for its own values: over ~150
    lightly damped cycles the phase of a response computed with the neighbour's step or period is off by 50 x the stated tolerance.
    (b) the caller's period array edited in place between two requests (doubled; first entry set to 0), same array object."""
    r = Res()
    xi = case['xi']
    n = case['n']
    rec = [0.0, 1.0, -0.5] + [0.0] * (n - 3)
    a = np.array(rec, dtype=float)
    r.nontrivial += 1
    r.cls('request-sequence')
    reqs = [(0.01, 0.1), (0.01 * NEAR, 0.1), (0.01, 0.1 * NEAR), (0.01, 0.1), (1.0 / 120, 1.0 / 3), (0.00833333, 1.0 / 3), (1.0 / 120, 0.333333),
            (0.00833333, 0.333333)]
    objs = {}
    for k, (dt, T) in enumerate(reqs):
        for ename in ('response_series', 'object-per-dt'):
            sub = {'sequence': 'near-equal steps and periods', 'request': k, 'dt': dt, 'T': T, 'xi': xi, 'n': n, 'entry': ename}
            r.states += 1
            if ename == 'response_series':
                ok, out = r.call('sequence', sub, sdof.response_series, a, dt, np.array([T]), xi)
            else:
                if dt not in objs:
                    objs[dt] = eqsig.AccSignal(a, dt)
                ok, out = r.call('sequence', sub, objs[dt].response_series, np.array([T]), xi)
            if ok:
                compare_with_oracle(r, 'sequence', sub, out, rec, dt, [T], xi)
    # (b) one period array, edited in place by the caller between requests
    dt = 0.01
    short = rec[:200]
    a2 = np.array(short, dtype=float)
    for ename in ('response_series', 'object'):
        p = np.array([0.1, 0.25])
        asig = eqsig.AccSignal(a2, dt)
        for k, edit in enumerate((None, lambda: p.__imul__(2.0), lambda: p.__setitem__(0, 0.0), lambda: p.__setitem__(0, 0.07))):
            if edit is not None:
                edit()
            sub = {'sequence': 'period array edited in place between requests', 'request': k, 'periods_now': p.tolist(), 'xi': xi, 'entry': ename}
            r.states += 1
            r.cls('period-array-edited-in-place')
            if ename == 'response_series':
                ok, out = r.call('sequence', sub, sdof.response_series, a2, dt, p, xi)
            else:
                ok, out = r.call('sequence', sub, asig.response_series, p, xi)
            if ok:
                compare_with_oracle(r, 'sequence', sub, out, short, dt, p.tolist(), xi)
    return r


def run_case(case):
    if case.get('kind') == 'seq':
        return run_sequences(case)
    r = Res()
    quick = case['tier'] == 'quick'
    dt = case['dt']
    if 'fam' in case:
        rec = long_record(case['fam'], case['n'])
        rid = '%s:%d' % (case['fam'], case['n'])
        r.cls('long-family')
        xis = (0.0, 0.05, 0.9) if quick else (0.0, 0.05, 0.5, 0.99)
        ratios = Q_RATIO if quick else T_RATIO
        shapes = ('single',)
    else:
        rec = case['rec']
        rid = rec
        xis = Q_XI if quick else T_XI
        ratios = Q_RATIO if quick else T_RATIO
        shapes = ('single', 'zero', 'multi')
    n = len(rec)
    recf = np.array(rec, dtype=float)
    amax = float(np.max(np.abs(recf)))
    nontriv = False
    shared = {}
    for ratio in ratios:
        T = float(ratio * dt)
        r.cls('T<dt' if ratio < 1 else ('T<6dt' if ratio < 6 else 'T>=6dt'))
        for xi in xis:
            if xi == 0:
                r.cls('xi=0')
            if xi >= 0.9:
                r.cls('xi>=0.9')
            for shape in shapes:
                if shape == 'single':
                    periods = [T]
                    rows = [(0, T)]
                elif shape == 'zero':
                    periods = [0.0, T]
                    rows = [(1, T)]
                    r.cls('leading-zero')
                else:
                    periods = [T, 2 * T, T / 2]
                    rows = [(j, p) for j, p in enumerate(periods) if LO <= p / dt <= HI]
                    r.cls('multi-period')
                exact = {}
                for j, p in rows:
                    U, V = ref.exact_series(rec, dt, p, xi)
                    exact[j] = (U, V, ref.to_float(U), ref.to_float(V))
                    if any(x != 0 for x in U):
                        nontriv = True
                for ename, fn in entry_points(rec, dt, periods, xi, shared):
                    r.cls('entry:' + ename)
                    r.states += 1
                    sub = {'rec': rid, 'dt': dt, 'T/dt': ratio, 'xi': xi, 'shape': shape, 'entry': ename}
                    ok, out = r.call('series', sub, fn)
                    if not ok:
                        continue
                    try:
                        u, v, a3 = (np.asarray(x, dtype=float) for x in out)
                        assert u.shape == v.shape == a3.shape == (len(periods), n), 'shapes %r %r %r' % (u.shape, v.shape, a3.shape)
                    except Exception as e:
                        r.fail('series.shape', sub, 'expected three arrays of shape (%d, %d): %s' % (len(periods), n, e), observed=out)
                        continue
                    for j, p in rows:
                        U, V, uf, vf = exact[j]
                        tol = ref.tolerance(dt, p, n)
                        s2 = dict(sub, row=j) if shape == 'multi' else sub
                        for nm, got, ex_mp, ex_f in (('u', u[j], U, uf), ('v', v[j], V, vf)):
                            r.n_cmp += 1
                            if not np.all(np.isfinite(got)):
                                r.fail('series.' + nm, s2, 'non-finite value in the %s series' % nm, observed=got)
                                continue
                            d = float(np.max(np.abs(got - ex_f)))
                            pk = float(np.max(np.abs(ex_f)))
                            if d <= tol * pk:
                                continue
                            # lazily: peak of the exact continuous-time response (never below the sampled peak)
                            if 'cp' not in exact:
                                exact['cp'] = {}
                            if j not in exact['cp']:
                                exact['cp'][j] = ref.continuous_peaks_f64(rec, dt, p, xi, uf, vf)
                                r.cls('lazy-continuous-peak-used')
                            cpk = float(exact['cp'][j][0 if nm == 'u' else 1])
                            # float64 rounding of the reference itself
                            if d <= tol * cpk + 4e-16 * pk:
                                continue
                            r.fail('series.' + nm, s2, '%s differs from the exact solution by %.3e (= %.3g x tolerance %.3e x peak %.3e)'
                                   % (nm, d, d / (tol * cpk) if cpk > 0 else float('inf'), tol, cpk),
                                   err=(d / (tol * cpk) if cpk > 0 else float('inf')), observed=got, expected=ex_f)
                        # third series: -(2 xi w v + w^2 u) on the implementation's own u, v
                        w_ = 2 * np.pi / p
                        t1 = 2 * xi * w_ * v[j]
                        t2 = w_ ** 2 * u[j]
                        want = -(t1 + t2)
                        big = np.maximum(np.abs(t1), np.abs(t2))
                        r.n_cmp += 1
                        if not (np.all(np.isfinite(a3[j])) and np.all(np.abs(a3[j] - want) <= 1e-8 * big + 1e-300)):
                            r.fail('third-series', s2, 'third series != -(2 xi w v + w^2 u)', observed=a3[j], expected=want)
                    if shape == 'zero':
                        r.expect('leading-zero.u-v-zero', sub, bool(np.all(u[0] == 0) and np.all(v[0] == 0)),
                                 'row of T=0 is not identically zero', observed=(u[0], v[0]))
                        r.expect_close('leading-zero.acc', sub, a3[0], -recf, rtol=0, atol=1e-15 * amax,
                                       what='row of T=0 in the third series must be the sign-flipped record')
            r.transitions += 1
    # ---- the record's container / dtype is not part of the quantifier: the same VALUES in an unsigned or narrow integer array, in a
    # float32 array or a tuple give the same series as in float64 (all values of the alphabet are exactly representable in all of
    # them once shifted to be non-negative)
    if 'fam' not in case:
        base_rec = [int(v) + 1 for v in rec]          # values in {0,1,2}
        af = np.array(base_rec, dtype=float)
        for ratio, xi in ((0.5, 0.05), (5.9, 0.0), (20, 0.5), (1000, 0.05)):
            T = float(ratio * dt)
            periods = np.array([0.0, T])
            ok0, want = r.call('dtype', {'rec': rid, 'dt': dt, 'T/dt': ratio, 'xi': xi, 'input': 'float64'}, sdof.response_series, af, dt, periods, xi)
            if not ok0:
                continue
            for nm, arr in (('uint8', np.array(base_rec, dtype=np.uint8)), ('int16', np.array(base_rec, dtype=np.int16)),
                            ('uint16', np.array(base_rec, dtype=np.uint16)), ('float32', np.array(base_rec, dtype=np.float32)),
                            ('tuple', tuple(base_rec))):
                sub = {'rec': rid, 'dt': dt, 'T/dt': ratio, 'xi': xi, 'input': nm}
                r.cls('dtype-variant')
                for ename, fn in (('response_series', lambda: sdof.response_series(arr, dt, periods, xi)),
                                  ('object', lambda: eqsig.AccSignal(arr, dt).response_series(response_times=periods, xi=xi))):
                    if nm == 'tuple' and ename == 'object':
                        continue
                    ok, got = r.call('dtype', dict(sub, entry=ename), fn)
                    if ok:
                        r.n_cmp += 1
                        try:
                            same = all(np.asarray(x).shape == np.asarray(y).shape and np.allclose(np.asarray(x, dtype=float), np.asarray(y, dtype=float), rtol=1e-12, atol=0)
                                       for x, y in zip(got, want))
                        except Exception:
                            same = False
                        if not same:
                            r.fail('dtype.same-values-same-response', dict(sub, entry=ename),
                                   'the response of the record given as %s differs from the response of the same values as float64' % nm,
                                   observed=got[0], expected=want[0])
    # ---- the periods' container / dtype is not part of the quantifier either: the same period VALUES in a float32 / float16 array,
    # an integer array or a list of ints (where the value is a whole number) give the response for those values.  Both executions
    # are within the property's tolerance of the exact solution, so they differ by at most twice that tolerance.
    if 'fam' not in case:
        af = np.array(rec, dtype=float)
        w_amax = float(np.max(np.abs(af)))
        for ratio, xi in ((0.5, 0.05), (5.9, 0.0), (20, 0.5), (1000, 0.05)):
            T = float(ratio * dt)
            variants = []
            for nm, pd in (('float32', np.float32), ('float16', np.float16)):
                with np.errstate(all='ignore'):
                    Tp = float(pd(T))
                if np.isfinite(Tp) and Tp > 0 and LO <= Tp / dt <= HI:
                    variants.append((nm, Tp, np.array([0.0, Tp], dtype=pd)))
            if T == int(T) and T >= 1:
                variants.append(('int64', T, np.array([0, int(T)], dtype=np.int64)))
                variants.append(('list-of-int', T, [0, int(T)]))
            for nm, Tp, pvar in variants:
                sub = {'rec': rid, 'dt': dt, 'T': Tp, 'xi': xi, 'periods': nm}
                ok0, want = r.call('period-dtype', dict(sub, periods='float64'), sdof.response_series, af, dt, np.array([0.0, Tp]), xi)
                if not ok0:
                    continue
                r.cls('period-dtype-variant')
                tol2 = 2 * ref.tolerance(dt, Tp, n)
                w_ = 2 * np.pi / Tp
                for ename, fn in (('response_series', lambda: sdof.response_series(af, dt, pvar, xi)),
                                  ('nigam', lambda: sdof.nigam_and_jennings_response(af, dt, pvar, xi)),
                                  ('object', lambda: eqsig.AccSignal(af, dt).response_series(response_times=pvar, xi=xi))):
                    ok, got = r.call('period-dtype', dict(sub, entry=ename), fn)
                    if not ok:
                        continue
                    try:
                        for k_, floor in ((0, 1e-3 * w_amax / w_ ** 2), (1, 1e-3 * w_amax / w_)):
                            g_, w0 = np.asarray(got[k_], dtype=float), np.asarray(want[k_], dtype=float)
                            sc = max(float(np.max(np.abs(w0[1]))), floor)
                            r.expect_close('period-dtype.same-values-same-response', dict(sub, entry=ename, series='uv'[k_]), g_, w0,
                                           rtol=0, atol=tol2 * sc + 1e-300,
                                           what='periods given as %s vs the same period values as float64' % nm)
                    except Exception as e:
                        r.fail('period-dtype.same-values-same-response', dict(sub, entry=ename), 'malformed result: %s' % e, observed=got)
    if nontriv:
        r.nontrivial += 1
    return r


def describe(case):
    return case


def snippet(case, v):
    s = v.get('sub') or {}
    rec = case.get('rec') or ('long_record(%r, %r)' % (case.get('fam'), case.get('n')))
    return ("import numpy as np\nfrom eqsig import sdof\nrec = %r; dt = %r; T = %r * dt; xi = %r\n"
            "u, v, a = sdof.response_series(np.array(rec, float), dt, np.array([T]), xi)\nprint(u, v, a)\n"
            "# compare with the exact solution of u''+2 xi w u'+w^2 u = a(t) (linear interpolant), e.g. mcheck.refs.sdof_ref.exact_series\n"
            % (rec, s.get('dt'), s.get('T/dt'), s.get('xi')))
