"""C18 - two-component rotation, rotated-measure scan, cluster lag matching and same-start alignment.

Three case kinds in one pool:

* 'rot' (engine T x G)  one pair (ns, we) of words over {-1,0,2} of equal length, every angle of the
        menu inside: combine_at_angle against ns*cos+we*sin written with math.cos/math.sin, the
        theta=0 / 90 / +180 identities, result type and dt; compute_rotated for offsets x points x
        measures against the measure of the reference combination at the reference angle; the measure menu
        holds scalar parameter names, the Arias name, scalar- and series-returning callables AND series-valued
        parameter names (velocity, displacement, s_a), for which row i of the scan is the whole series.
* 'tm'  (engine S)      one master record (a permutation of 0..n-1 from a fixed family) with every
        steps x lag x cluster size x master index inside; post-conditions of Cluster.time_match.
* 'ss'  (engine T x G)  one head (first one or two words) of a cluster of 2..4 words over {0,1,3};
        all completions x every master index x every section window inside; post-conditions of
        Cluster.same_start.  On-grid windows are judged by a reference over the samples start <= t_i <= end;
        the blocks with L = 4 also get window bounds that are not sample times and, on all their windows, the
        relation "after same_start(start, end) every signal reports the master's
        Signal.get_section_average(start=, end=)" (the library's public definition of the chosen section).

Round 3 (general lessons): 'tm-long' cases: long clusters (4999, 5001, 8192 samples; permutation master, unique lag by an exact
int64 brute force); 'tm' clusters also as int64, scaled by 2^-30 and riding on a level of 2^20; 'ss' blocks also with samples a
few 1e-9 around zero and ~1e-3 apart on a common level of 1024 (tolerances relative to the sample size); short rotation pairs
also with components held as int64 / int16 / uint8 / float32, scaled by 2^-30 / 2^20, and on AccSignal objects with a history;
angles next to 0 and 90; every returned combination is overwritten in place and the components are verified afterwards.

Round 4: falsy-zero and omitted values of same_start's optional numeric parameters start / end: 'ss' blocks SS_MENU_BLOCKS also
with the windows of SS_MENUS - end = 0 and 0.0 (the section that consists of the first sample only: 0 is inside the domain, is
not the default 1 and is falsy), start = 0 / 0.0 / omitted, one-sample windows away from the origin, and, at dt = 0.5 where the
default section [0, 1] fits the records, every combination of given and omitted bounds, the whole record and its last sample.
"""
import itertools
import math
from fractions import Fraction

import numpy as np

from ..target import eqsig
from ..result import Res
from ..compare import bits_equal

# ---- rotation menus ---------------------------------------------------------------------------
SIG_ROT = (-1, 0, 2)
# 1e-9 and 90.0000001: angles next to the special values 0 and 90 (the formula holds for the angle actually passed)
ANGLES = (0, 30, 90, 135, 180, 210, -45, 360, 1e-9, 90.0000001)
OFFSETS = (0, 30, 200)
POINTS = (3, 7)
ROT_DT = 0.01
G = 9.81
MEASURES = ('pga', 'pgv', 'arias_intensity', 'func-scalar', 'func-series', 'func-lambda-max', 'func-lambda-sumsq', 'velocity', 'displacement', 's_a')
# named parameters whose value is a whole series: the scan must return that series for every angle (shape (points, len))
SERIES_MEASURES = ('velocity', 'displacement', 's_a')
S_A_POINTS = (3,)       # 's_a' (100 periods, two spectra per angle) only with the smaller number of scan points
# compute_rotated(ns, we, angle_off_ns=0.0, parameter=None, func=None, points=100): a scan that omits angle_off_ns and points
# (after the explicit scans) covers the 100 angles linspace(0, 180, 100) with no offset; measures of that scan:
SCAN_DEFAULTS = (0.0, 100)
SCAN_DEFAULT_MEASURES = ('pga', 'func-series')
# component containers / scalings (pairs of length <= ROT_VARIANT_MAX_LEN; actual samples v*mult+offset, exact in the type;
# 2^-30 ~ 1e-9 and 2^20 ~ 1e6: the combination is linear and every measure homogeneous, tolerances relative to the scale).
# 'history': the two AccSignal objects held other records of a different length before (combined, scanned, lazy properties
# read, auxiliary statistics generated), then reset_values(this record).
ROT_VARIANTS = (('i64', 1, 0, np.int64), ('i16 (v*10000)', 10000, 0, np.int16), ('u8 (v*80+80)', 80, 80, np.uint8),
                ('f32', 1, 0, np.float32), ('f64 (v*2^-30)', Fraction(1, 2 ** 30), 0, float), ('f64 (v*2^20)', 2 ** 20, 0, float),
                ('history', 1, 0, float))
ROT_VARIANT_MAX_LEN = 2
ROT_VARIANT_SCAN = ((30, 3),)          # (offset, points) of the scans run for the variants (every measure)

# ---- time_match menus -------------------------------------------------------------------------
TM_LENGTHS = (10, 12)
TM_FAMILY = 30
TM_STEPS = (2, 3, 5)
TM_DT = 0.1
# containers / scalings of the cluster (master m and its lagged copies): m, m as int64, m*2^-30 (residuals ~1e-18), m+2^20
# (samples differ by ~1e-6 of their size)
TM_VARIANTS = (('f64', 1, 0, float), ('i64', 1, 0, np.int64), ('f64 (m*2^-30)', Fraction(1, 2 ** 30), 0, float),
               ('f64 (m+2^20)', 1, 2 ** 20, float),
               # a level 1e8 .. 1e9 times the variation (positions, absolute pressures): sums of squares of the values lose the residuals
               ('f64 (m*2^-7+2^23)', Fraction(1, 128), 2 ** 23, float))
# long clusters ("for every cluster"): lcg_perm(n, 0) for these lengths, steps TM_LONG_STEPS, every lag, the cluster shapes
# (number of signals, master index) of TM_LONG_SHAPES
TM_LONG_LENGTHS = (4999, 5001, 8192)
TM_LONG_STEPS = (2, 5)
TM_LONG_SHAPES = ((2, 0), (2, 1), (3, 1))

# ---- same_start menus -------------------------------------------------------------------------
SIG_SS = (0, 1, 3)
SS_DT = 0.1
WINDOWS = ((0, 0.1), (0, 0.3), (0.1, 0.3))
# index windows [s, e) allowed by the statement for each (start, end) at dt = 0.1: samples with start <= t_i <= end.
# t_3 = 3*0.1 and end = 0.3 are equal as decimals but differ in the last binary digit (0.30000000000000004 > 0.3;
# 0.3/0.1 = 2.9999999999999996): a rounding-level tie (DESIGN section 3) - either reading is accepted, the same one
# for every signal of the cluster.
SS_INDEX_WINDOWS = {(0, 0.1): ((0, 2),), (0, 0.3): ((0, 3), (0, 4)), (0.1, 0.3): ((1, 3), (1, 4))}
# Window bounds that are NOT sample times (bound/dt with a fractional part >= 0.5: 1.7, 2.6; < 0.5: 1.2, 2.3).  The
# statement does not say which samples such a section consists of, so no index window is presupposed: the section
# average of a signal is what the library's own public Signal.get_section_average(start=, end=) reports for the same
# bounds, and after same_start(start, end) every signal must report the master's value (a relation between public
# calls).  The same relation is checked on the on-grid windows above (there in addition to the reference), including
# the rounding-level ties (a quotient just below an integer).  The index windows listed here (every floor/ceil
# reading) only serve the non-triviality count.
OFFGRID_WINDOWS = ((0.17, 0.26), (0.12, 0.23))
SS_OFFGRID_INDEX_WINDOWS = {(0.17, 0.26): ((1, 3), (1, 4), (2, 3), (2, 4)), (0.12, 0.23): ((1, 3), (1, 4), (2, 3), (2, 4))}
OFFGRID_GE_HALF = {w: any((Fraction(repr(b)) / Fraction('0.1')) % 1 >= Fraction(1, 2) for b in w) for w in OFFGRID_WINDOWS}
OFFGRID_L = (4,)        # blocks (by word length) that also get the off-grid windows and the reported-average relation
# same_start on clusters whose samples are v*mult+offset: a few 1e-9 around zero, and ~1e-3 apart on a common level of 1024
# (section averages differ by ~1e-6 of their size); all values exact in binary.  Run on the blocks SS_VARIANT_BLOCKS.
SS_VARIANTS = (('tiny (v*2^-30)', Fraction(1, 2 ** 30), 0), ('level (v*2^-10+2^10)', Fraction(1, 2 ** 10), 2 ** 10))
SS_VARIANT_BLOCKS = ((2, 4, 'all', 1), (3, 4, 'R9', 2))
# Window bounds that are zero (int 0 and float 0.0) or omitted ('omitted': the keyword is not passed; same_start's defaults are
# start=0, end=1).  [start, 0] is the first sample only - "start both series at the same value".  At dt = 0.1 the default section
# [0, 1] needs 11 samples, so the windows with an omitted end live in a second menu at dt = 0.5 (all bounds dyadic: index windows
# exact, no rounding ties).  Index windows [s, e): samples with start <= t_i <= end.
OM = 'omitted'
SS_MENUS = {
    'zero-bounds dt=0.1': (0.1, ((0, 0), (0.0, 0.0), (OM, 0), (OM, 0.0), (0.0, 0.1), (0.2, 0.2))),
    'zero-and-omitted-bounds dt=0.5': (0.5, ((OM, OM), (0, OM), (0.0, OM), (OM, 1), (OM, 0), (OM, 0.0), (0, 0), (0.0, 0.0),
                                             (0.0, 0.5), (0.5, 0.5), (0.5, OM), (0, 1.5), (1.5, 1.5))),
}
# keyed by the effective (start, end): 0 == 0.0 as a key
SS_MENU_INDEX_WINDOWS = {
    'zero-bounds dt=0.1': {(0, 0): ((0, 1),), (0, 0.1): ((0, 2),), (0.2, 0.2): ((2, 3),)},
    'zero-and-omitted-bounds dt=0.5': {(0, 1): ((0, 3),), (0, 0): ((0, 1),), (0, 0.5): ((0, 2),), (0.5, 0.5): ((1, 2),),
                                       (0.5, 1): ((1, 3),), (0, 1.5): ((0, 4),), (1.5, 1.5): ((3, 4),)},
}
SS_MENU_BLOCKS = ((2, 4, 'R27', 1), (3, 4, 'R9', 2), (4, 4, 'R3', 2))      # argument handling, not a data-pattern question: reduced families


def lcg_perm(n, j):
    """j-th member of the fixed family of permutation records of length n: Fisher-Yates driven by the
    classic 31-bit linear congruential generator, started at 7919*(j+1)+n.  No dependence on VERIF_SEED."""
    x = (7919 * (j + 1) + n) % (2 ** 31)
    p = list(range(n))
    for i in range(n - 1, 0, -1):
        x = (1103515245 * x + 12345) % (2 ** 31)
        k = (x >> 8) % (i + 1)
        p[i], p[k] = p[k], p[i]
    return p


def ss_family(name, L):
    if name == 'all':
        return [list(w) for w in itertools.product(SIG_SS, repeat=L)]
    tail = [1, 0][:L - 3]
    if name == 'R27':      # first three samples free, fixed tail
        return [list(w) + tail for w in itertools.product(SIG_SS, repeat=3)]
    if name == 'R9':       # first two samples free, third = 3, fixed tail
        return [list(w) + [3] + tail for w in itertools.product(SIG_SS, repeat=2)]
    if name == 'R3':       # first sample free, (x, 1, 3, 1[, 0]): used by the zero / omitted window menus for four signals
        return [[x, 1, 3] + tail for x in SIG_SS]
    raise ValueError(name)


def ss_plan(tier):
    """(m, L, family, head length) blocks; every block is the complete product family^m.  The head
    (all words but the last) identifies the pool case, so one case stays below the per-case violation cap."""
    # same blocks in both tiers (DESIGN: the thorough tier of C18 only raises the rotation length bound)
    plan = [(2, 4, 'all', 1), (2, 5, 'all', 1), (3, 4, 'R27', 2), (3, 5, 'R27', 2), (4, 4, 'R9', 3), (4, 5, 'R9', 3)]
    return plan


def build(tier, seed):
    Lrot = 3 if tier == 'quick' else 4
    cases = []
    for L in range(1, Lrot + 1):
        for ns in itertools.product(SIG_ROT, repeat=L):
            for we in itertools.product(SIG_ROT, repeat=L):
                cases.append({'kind': 'rot', 'ns': list(ns), 'we': list(we)})
    masters = 0
    for n in TM_LENGTHS:
        seen = set()
        for j in range(TM_FAMILY):
            p = lcg_perm(n, j)
            if tuple(p) in seen:
                continue
            seen.add(tuple(p))
            masters += 1
            cases.append({'kind': 'tm', 'master': p})
    for n in TM_LONG_LENGTHS:
        for steps in TM_LONG_STEPS:
            cases.append({'kind': 'tm-long', 'n': n, 'j': 0, 'steps': steps})
    plan = ss_plan(tier)
    for m, L, fam, hl in plan:
        for head in itertools.product(ss_family(fam, L), repeat=hl):
            cases.append({'kind': 'ss', 'm': m, 'L': L, 'family': fam, 'head': [list(h) for h in head]})
    for vname, _, _ in SS_VARIANTS:
        for m, L, fam, hl in SS_VARIANT_BLOCKS:
            for head in itertools.product(ss_family(fam, L), repeat=hl):
                cases.append({'kind': 'ss', 'm': m, 'L': L, 'family': fam, 'head': [list(h) for h in head], 'variant': vname})
    for menu in sorted(SS_MENUS):
        for m, L, fam, hl in SS_MENU_BLOCKS:
            for head in itertools.product(ss_family(fam, L), repeat=hl):
                cases.append({'kind': 'ss', 'm': m, 'L': L, 'family': fam, 'head': [list(h) for h in head], 'menu': menu})
    return {
        'rule_more': 'rotated scan with two anonymous measures and the returned arrays edited in place by the caller; time_match / same_start with the master assigned after construction, AccSignal and mixed clusters aligned again after every member was edited; values on a level 2^23 with steps 1/128',
        'cases': cases,
        'rule': "kind 'rot': all pairs (ns, we) of words over {-1,0,2} of equal length 1..%d x angles %s (+180 partner) and "
                "compute_rotated offsets %s x points %s x measures %s (s_a: points 3 only), then with angle_off_ns and points omitted "
                "(signature defaults 0.0 and 100; measures pga and func-series); kind 'tm': %d distinct permutation masters (fixed "
                "LCG family, lengths %s) x steps %s x every lag in (-steps, steps) x clusters of 2..4 signals x every "
                "master_index (non-masters carry lags l, -l, l+1 wrapped into the window; edge padded); kind 'ss': complete "
                "products family^m of words over {0,1,3}: %s, x every master_index x windows %s at dt=0.1; blocks with L in %s "
                "also x off-grid windows %s, and on all their windows every signal must report the master's "
                "get_section_average(start, end) after same_start(start, end).  non-trivial = "
                "rotation pair not both zero; lag-matching configuration with a non-zero lag; same-start cluster in which "
                "some non-master's section average differs from the master's.  Added menus: rotation pairs of length <= %d "
                "also with the components as %s (scan offset/points %s, every measure); returned combinations are overwritten in "
                "place and the components checked afterwards; time_match clusters also as %s, and long clusters lcg_perm(n, 0), "
                "n in %s x steps %s x every lag x (signals, master) in %s; same_start blocks %s also with samples %s; same_start "
                "blocks %s also x the window menus %s ('omitted': keyword not passed, defaults start=0, end=1), judged by the "
                "index-window reference and by the reported-average relation"
                % (Lrot, list(ANGLES), list(OFFSETS), list(POINTS), list(MEASURES), masters, list(TM_LENGTHS), list(TM_STEPS),
                   ['m=%d L=%d family=%s' % (m, L, f) for m, L, f, _ in plan], [list(w) for w in WINDOWS], list(OFFGRID_L),
                   [list(w) for w in OFFGRID_WINDOWS], ROT_VARIANT_MAX_LEN, [v[0] for v in ROT_VARIANTS],
                   [list(x) for x in ROT_VARIANT_SCAN], [v[0] for v in TM_VARIANTS], list(TM_LONG_LENGTHS), list(TM_LONG_STEPS),
                   [list(x) for x in TM_LONG_SHAPES], ['m=%d L=%d family=%s' % (m, L, f) for m, L, f, _ in SS_VARIANT_BLOCKS],
                   [v[0] for v in SS_VARIANTS], ['m=%d L=%d family=%s' % (m, L, f) for m, L, f, _ in SS_MENU_BLOCKS],
                   {k: [v[0], [list(w) for w in v[1]]] for k, v in sorted(SS_MENUS.items())}),
        'bounds': {'rotation': {'alphabet': SIG_ROT, 'max_len': Lrot, 'angles': ANGLES, 'offsets': OFFSETS, 'points': POINTS,
                                'measures': MEASURES, 's_a_points': S_A_POINTS, 'dt': ROT_DT,
                                'component_variants': [v[0] for v in ROT_VARIANTS], 'variant_max_len': ROT_VARIANT_MAX_LEN,
                                'variant_scans': ROT_VARIANT_SCAN,
                                'scan_with_omitted_offset_and_points': {'defaults': SCAN_DEFAULTS, 'measures': SCAN_DEFAULT_MEASURES}},
                   'time_match': {'lengths': TM_LENGTHS, 'masters_per_length': TM_FAMILY, 'steps': TM_STEPS,
                                  'cluster_sizes': [2, 3, 4], 'dt': TM_DT, 'value_variants': [v[0] for v in TM_VARIANTS],
                                  'long_lengths': TM_LONG_LENGTHS, 'long_steps': TM_LONG_STEPS,
                                  'long_shapes': TM_LONG_SHAPES},
                   'same_start': {'alphabet': SIG_SS, 'blocks': [[m, L, f] for m, L, f, _ in plan], 'windows': WINDOWS,
                                  'offgrid_windows': OFFGRID_WINDOWS, 'offgrid_and_reported_average_relation_for_L': OFFGRID_L,
                                  'dt': SS_DT, 'value_variants': [v[0] for v in SS_VARIANTS],
                                  'variant_blocks': [[m, L, f] for m, L, f, _ in SS_VARIANT_BLOCKS],
                                  'zero_and_omitted_bound_menus': {k: {'dt': v[0], 'windows': v[1]} for k, v in SS_MENUS.items()},
                                  'zero_and_omitted_bound_blocks': [[m, L, f] for m, L, f, _ in SS_MENU_BLOCKS],
                                  'families': {'all': 'all words of length L', 'R27': '(x,y,z,1[,0])', 'R9': '(x,y,3,1[,0])', 'R3': '(x,1,3,1[,0])'}}},
        'required_classes': ['rot-theta-0', 'rot-theta-90', 'rot-negation', 'rot-general-angle',
                             'scan-pga', 'scan-pgv', 'scan-arias_intensity', 'scan-func-scalar', 'scan-func-series', 'scan-func-lambda-max', 'scan-func-lambda-sumsq',
                             'scan-velocity', 'scan-displacement', 'scan-s_a', 'scan-series-valued-parameter',
                             'scan-offset-0', 'scan-offset-30', 'scan-offset-200', 'scan-points-3', 'scan-points-7',
                             'scan-series-last-differs-from-first', 'scan-defaults-after-explicit',
                             'tm-lag-positive', 'tm-lag-negative', 'tm-lag-zero', 'tm-nsig-2', 'tm-nsig-3', 'tm-nsig-4',
                             'tm-master-0', 'tm-master-nonzero', 'tm-master-reassigned', 'tm-max-lag',
                             'ss-nsig-2', 'ss-nsig-3', 'ss-nsig-4', 'ss-master-0', 'ss-master-1', 'ss-master-last',
                             'ss-shift-nonzero', 'ss-already-aligned', 'ss-window-decided', 'ss-window-rounding-tie',
                             'ss-window-off-grid', 'ss-window-bound-fraction-ge-half', 'ss-window-bound-fraction-lt-half',
                             'ss-reported-average-relation', 'ss-realigned-after-edit',
                             'rot-near-special-angle', 'rot-variant-i64', 'rot-variant-i16', 'rot-variant-u8', 'rot-variant-f32',
                             'rot-variant-f64', 'rot-variant-history',
                             'tm-variant-i64', 'tm-variant-f64-transformed', 'tm-long-cluster', 'tm-length-odd', 'tm-length-even',
                             'ss-variant-tiny', 'ss-variant-level', 'ss-variant-shift-nonzero',
                             'ss-end-zero-int', 'ss-end-zero-float', 'ss-start-zero-float', 'ss-start-omitted', 'ss-end-omitted',
                             'ss-both-omitted', 'ss-single-sample-window', 'ss-first-sample-only', 'ss-window-ends-on-last-sample',
                             'ss-zero-end-shift-differs-from-default-end-shift', 'ss-menu-shift-nonzero'],
        'assumptions': ['rotation reference: ns*cos(theta)+we*sin(theta) with math.cos/math.sin per sample; measures from '
                        'their definitions (max abs; trapezoid velocity; pi/(2*9.81)*trapezoid(a^2); user callables)',
                        'lag matching is examined only for slaves that are exact edge-padded integer shifts of a master with '
                        'distinct levels, for which a brute-force search confirms that the true lag is the unique minimiser of '
                        'the squared residual (total and per-sample) over the open search window; others are counted as disabled',
                        'the pad value written outside the overlap by time_match is not constrained by the property',
                        'same_start: for m >= 3 the cluster members are drawn from the reduced families named in the bounds '
                        '(complete products of those), pairs are complete over all words of length 4 and 5',
                        'section end 0.3 at dt 0.1 is a rounding-level tie for sample 3: both index windows are accepted',
                        'window bounds that are not sample times: the statement does not define the samples of such a section; '
                        'the chosen section average of a signal is what Signal.get_section_average(start=, end=) reports for '
                        'the same bounds (relation between public calls); the floor/ceil index windows only feed the '
                        'non-triviality count',
                        'same_start called without start / end uses start=0, end=1 (the defaults in its code; it has no parameter '
                        'documentation): examined at dt = 0.5, where that section (samples 0..2) fits the records',
                        'variants: samples v*mult+offset exactly representable in the stated type; references for the values '
                        'actually passed, tolerances relative to their size; unsigned / narrow integer CLUSTERS are not examined '
                        '(time_match forms differences and squares in the samples\' own type)',
                        'long time_match clusters: one permutation master per length, integer lags unique by an exact int64 '
                        'brute-force search',
                        'series-valued named parameters (velocity, displacement: trapezoid rule as for pgv; s_a: the library\'s own '
                        's_a of the reference combination, default periods): row i of the scan is the whole series']}


# ---------------------------------------------------------------------------------------------
# rotation
# ---------------------------------------------------------------------------------------------
def ref_combo(ns, we, theta):
    c = math.cos(math.radians(theta))
    s = math.sin(math.radians(theta))
    return [a * c + b * s for a, b in zip(ns, we)]


def ref_measure(name, c, dt):
    if name == 'pga':
        return max(abs(v) for v in c)
    if name == 'pgv':
        v = 0.0
        pk = 0.0
        for i in range(1, len(c)):
            v += dt * (c[i] + c[i - 1]) / 2.0
            pk = max(pk, abs(v))
        return pk
    if name == 'arias_intensity':
        tot = 0.0
        for i in range(1, len(c)):
            tot += dt * (c[i] ** 2 + c[i - 1] ** 2) / 2.0
        return math.pi / (2.0 * G) * tot
    if name == 'func-scalar':
        return math.fsum(abs(v) for v in c)
    if name == 'func-series':
        return math.fsum(c)          # last value of the running sum
    if name == 'func-lambda-max':
        return max(c)
    if name == 'func-lambda-sumsq':
        return math.fsum(v * v for v in c)
    if name in ('velocity', 'displacement'):
        v = [0.0]
        for i in range(1, len(c)):
            v.append(v[-1] + dt * (c[i] + c[i - 1]) / 2.0)
        if name == 'velocity':
            return v                 # the whole series
        d = [0.0]
        for i in range(1, len(c)):
            d.append(d[-1] + dt * (v[i] + v[i - 1]) / 2.0)
        return d
    if name == 's_a':
        # the measure itself (C04's subject) is not re-derived here: "the measure of that combination" is the library's
        # own s_a of a fresh AccSignal holding the REFERENCE combination (default periods) - the whole spectrum
        return [float(x) for x in eqsig.AccSignal(np.array(c, dtype=float), dt).s_a]
    raise ValueError(name)


def _f_scalar(sig):
    return float(np.sum(np.abs(sig.values)))


def _f_series(sig):
    return np.cumsum(sig.values)


# two ANONYMOUS user measures (same __name__), asked one after the other on the same component objects
_f_lam_max = lambda sig: float(np.max(sig.values))              # noqa: E731   signed maximum: distinguishes theta from theta+180
_f_lam_sumsq = lambda sig: float(np.sum(np.asarray(sig.values, dtype=float) ** 2))      # noqa: E731


def circ_diff(a, b):
    """Signed angular difference a-b in degrees folded into [-180, 180)."""
    return (a - b + 180.0) % 360.0 - 180.0


def affine(v, mult, off):
    return Fraction(v) * Fraction(mult) + Fraction(off)


def build_arr(vals_fr, typ):
    """ndarray of the exact rationals vals_fr (all exactly representable in the requested type)"""
    if typ in (float, np.float32):
        a = np.array([float(v) for v in vals_fr], dtype=typ)
    else:
        a = np.array([int(v) for v in vals_fr], dtype=typ)
    assert all(Fraction(float(x)) == v for x, v in zip(a.tolist(), vals_fr)), 'sample not representable'
    return a


def _acc_with_history(other, values):
    """AccSignal that held ANOTHER record of a different length, had its lazy properties read and its auxiliary statistics
    generated, and was then given this record through reset_values (failures while building the history are ignored)."""
    sg = eqsig.AccSignal(np.array(other, dtype=float), ROT_DT)
    with np.errstate(all='ignore'):
        for step in (lambda: sg.velocity, lambda: sg.displacement, lambda: sg.pga, lambda: sg.pgv, lambda: sg.fa_spectrum,
                     lambda: sg.generate_cumulative_stats(), lambda: sg.generate_duration_stats()):
            try:
                step()
            except Exception:
                pass
    return sg


def run_rot(c):
    r = Res()
    ns, we = c['ns'], c['we']
    if any(ns) or any(we):
        r.nontrivial += 1
    _rot_body(r, ns, we, None, 1, 0, float)
    if len(ns) <= ROT_VARIANT_MAX_LEN:
        for tag, mult, off, typ in ROT_VARIANTS:
            r.cls('rot-variant-' + tag.split(' ')[0])
            _rot_body(r, ns, we, tag, mult, off, typ)
    return r


def _rot_body(r, ns, we, tag, mult, off, typ):
    """tag None: the historical float64 components with the full scan menu; otherwise one container / scaling / history
    variant (sub gets 'values') with the scans of ROT_VARIANT_SCAN."""
    plain = tag is None
    n = len(ns)
    nsx = [float(affine(v, mult, off)) for v in ns]       # the samples actually passed (exact)
    wex = [float(affine(v, mult, off)) for v in we]
    pk = max(max(abs(v) for v in nsx + wex), float(mult)) if not plain else 1.0
    ns_arr = build_arr([affine(v, mult, off) for v in ns], typ)
    we_arr = build_arr([affine(v, mult, off) for v in we], typ)
    if tag == 'history':
        ns_sig = _acc_with_history(list(ns) + [1, 2], ns_arr)
        we_sig = _acc_with_history(list(we) + [2, -1], we_arr)
        try:        # the functions under test on the other records, then the records of this case
            eqsig.combine_at_angle(ns_sig, we_sig, 30)
            eqsig.compute_rotated(ns_sig, we_sig, parameter='pga', points=3)
            eqsig.compute_rotated(ns_sig, we_sig, parameter='arias_intensity', points=3)
        except Exception:
            pass
        ns_sig.reset_values(ns_arr)
        we_sig.reset_values(we_arr)
    else:
        ns_sig = eqsig.AccSignal(ns_arr, ROT_DT)
        we_sig = eqsig.AccSignal(we_arr, ROT_DT)
    # what the objects hold before the functions under test run (the constructor may store integer records in a wider type:
    # the values are the property's business, the storage type is not)
    held0 = {}
    for nm_, sg_, arr_ in (('ns', ns_sig, ns_arr), ('we', we_sig, we_arr)):
        try:
            h_ = np.array(sg_.values, copy=True)
            held0[nm_] = h_ if h_.shape == np.shape(arr_) and [float(v) for v in h_] == [float(v) for v in arr_] else None
        except Exception:
            held0[nm_] = None
    base = {'ns': ns, 'we': we}
    if not plain:
        base['values'] = tag
    at = 1e-12 * pk
    for th in ANGLES:
        sub = dict(base, theta=th)
        r.states += 1
        ok, out = r.call('rotation.formula', sub, eqsig.combine_at_angle, ns_sig, we_sig, th)
        if not ok:
            continue
        good = isinstance(out, eqsig.AccSignal)
        try:
            good = good and out.dt == ROT_DT and out.npts == n
        except Exception:
            good = False
        r.expect('rotation.type-dt', sub, good, 'result is not an AccSignal with the components\' dt and length',
                 observed=(type(out).__name__, getattr(out, 'dt', None), getattr(out, 'npts', None)))
        vals = getattr(out, 'values', None)
        try:
            vals = np.array(vals, dtype=float)          # private copy; the returned object's array is overwritten below
            out.values[...] = 77.0
        except Exception:
            pass
        r.expect_close('rotation.formula', sub, vals, ref_combo(nsx, wex, th), rtol=0.0, atol=at,
                       what='combine_at_angle vs ns*cos+we*sin')
        if th % 360 == 0:
            if plain:
                r.cls('rot-theta-0')
            r.expect_close('rotation.theta-0', sub, vals, nsx, rtol=0.0, atol=at)
        elif th % 360 == 90:
            if plain:
                r.cls('rot-theta-90')
            r.expect_close('rotation.theta-90', sub, vals, wex, rtol=0.0, atol=at)
        elif plain:
            r.cls('rot-near-special-angle' if min(abs(th % 90), 90 - abs(th % 90)) < 1e-3 else 'rot-general-angle')
        r.transitions += 1
        if plain:
            r.cls('rot-negation')
        ok, out2 = r.call('rotation.negation', sub, eqsig.combine_at_angle, ns_sig, we_sig, th + 180)
        if ok:
            try:
                neg = -np.asarray(vals, dtype=float)
            except Exception:
                neg = None
            r.expect_close('rotation.negation', sub, getattr(out2, 'values', None), neg, rtol=0.0, atol=at,
                           what='combination at theta+180 vs minus combination at theta')
    scans = [(o, p) for o in OFFSETS for p in POINTS] if plain else list(ROT_VARIANT_SCAN)
    if plain:
        scans.append((None, None))      # explicit options first, then a scan that relies on the defaults of the signature
    for off_ns, pts in scans:
        defaults = off_ns is None
        if defaults:
            off_ns, pts = SCAN_DEFAULTS
        want_ang = [180.0 * i / (pts - 1) for i in range(pts)]
        combos = [ref_combo(nsx, wex, a - off_ns) for a in want_ang]
        for meas in (SCAN_DEFAULT_MEASURES if defaults else MEASURES):
            if meas == 's_a' and pts not in S_A_POINTS:
                continue
            sub = dict(base, offset=off_ns, points=pts, measure=meas)
            r.states += 1
            if defaults:
                sub = dict(base, offset='omitted', points='omitted', measure=meas)
                r.cls('scan-defaults-after-explicit')
            elif plain:
                r.cls('scan-' + meas)
                r.cls('scan-offset-%d' % off_ns)
                r.cls('scan-points-%d' % pts)
            kw = {} if defaults else {'angle_off_ns': off_ns, 'points': pts}
            if meas == 'func-scalar':
                kw['func'] = _f_scalar
            elif meas == 'func-lambda-max':
                kw['func'] = _f_lam_max
            elif meas == 'func-lambda-sumsq':
                kw['func'] = _f_lam_sumsq
            elif meas == 'func-series':
                kw['func'] = _f_series
                if plain and n > 1 and any(abs(math.fsum(cb) - cb[0]) > 1e-6 for cb in combos):
                    r.cls('scan-series-last-differs-from-first')
            else:
                kw['parameter'] = meas
            ok, out = r.call('rotated.scan', sub, eqsig.compute_rotated, ns_sig, we_sig, **kw)
            if not ok:
                continue
            try:
                deg, vals = out
                deg = [float(v) for v in np.asarray(deg, dtype=float).ravel()]
            except Exception:
                r.fail('rotated.scan', sub, 'result is not an (angles, values) pair', observed=out)
                continue
            if not r.expect('rotated.angles', sub, len(deg) == pts, 'number of angles differs from points',
                            observed=deg, expected=pts):
                continue
            err = [circ_diff(d + off_ns, a) for d, a in zip(deg, want_ang)]
            r.expect('rotated.angles', sub, all(abs(e) <= 1e-9 for e in err),
                     '(angle + offset) mod 360 differs from linspace(0, 180, points) mod 360',
                     observed=deg, expected=[(a - off_ns) % 360.0 for a in want_ang])
            try:
                want = [ref_measure(meas, cb, ROT_DT) for cb in combos]
            except Exception as e:  # noqa   (only the library-evaluated measure 's_a' can raise here)
                r.fail('rotated.scan', sub, 'the measure of the reference combination cannot be evaluated: %r' % (e,))
                continue
            am = 1e-13 * (pk * pk if meas == 'arias_intensity' else pk)
            if meas in SERIES_MEASURES:
                # series-valued named parameter: row i is the whole series of combination i
                if plain:
                    r.cls('scan-series-valued-parameter')
                r.expect_close('rotated.values', sub, vals, want, rtol=1e-9, atol=am,
                               what='row i vs the whole %s series of the reference combination at angle i' % meas)
                continue
            r.expect_close('rotated.values', sub, vals, want, rtol=1e-9, atol=am,
                           what='value i vs %s of the reference combination at angle i' % meas)
            # the caller owns the two arrays it was given: it turns the angles into something else in place and rescales the values
            # (later scans with the same offset and number of points must not see any of it)
            for res_ in (out[0], out[1]):
                if isinstance(res_, np.ndarray) and res_.flags.writeable and res_.size:
                    try:
                        res_ += 33.0
                        res_ %= 7.0
                    except Exception:
                        pass
    # the components themselves are left alone by all of the above (also by overwriting the returned combinations)
    for nm, sg, arr, xs in (('ns', ns_sig, ns_arr, nsx), ('we', we_sig, we_arr, wex)):
        try:
            same = held0[nm] is not None and bits_equal(np.asarray(sg.values), held0[nm]) and sg.dt == ROT_DT and sg.npts == n
        except Exception:
            same = False
        r.expect('rotation.components-unchanged', dict(base, component=nm), same,
                 'the %s component was modified by combine_at_angle / compute_rotated (or by writing into a returned combination)' % nm,
                 observed=getattr(sg, 'values', None), expected=xs)


# ---------------------------------------------------------------------------------------------
# time_match
# ---------------------------------------------------------------------------------------------
def lagged(m, lag):
    """The master delayed by `lag` samples (negative: advanced), edge padded; same length."""
    n = len(m)
    if lag > 0:
        return [m[0]] * lag + m[:n - lag]
    if lag < 0:
        return m[-lag:] + [m[-1]] * (-lag)
    return list(m)


def lag_is_unique_minimiser(m, slave, lag, steps):
    """Brute force over the open search window: squared residual between master and the slave advanced
    by c samples, summed over their overlap, and the same per overlapping sample; the true lag must be
    the only minimiser of both."""
    n = len(m)
    ssr = {}
    for c in range(-steps + 1, steps):
        tot = 0
        cnt = 0
        for k in range(n):
            if 0 <= k + c < n:
                tot += (m[k] - slave[k + c]) ** 2
                cnt += 1
        ssr[c] = (tot, cnt)
    best = min(v[0] for v in ssr.values())
    arg1 = [c for c, v in ssr.items() if v[0] == best]
    bestm = min(v[0] * 1.0 / v[1] for v in ssr.values())
    arg2 = [c for c, v in ssr.items() if v[0] * 1.0 / v[1] == bestm]
    return arg1 == [lag] and arg2 == [lag]


def lag_is_unique_minimiser_long(m, slave, lag, steps):
    """Same brute force for long records, in exact int64 arithmetic (samples are integers below 2^14)."""
    a = np.array(m, dtype=np.int64)
    b = np.array(slave, dtype=np.int64)
    n = len(a)
    tot = {}
    for c in range(-steps + 1, steps):
        d = a[:n - c] - b[c:] if c >= 0 else a[-c:] - b[:n + c]
        tot[c] = (int(np.sum(d * d)), n - abs(c))
    best = min(v[0] for v in tot.values())
    arg1 = [c for c, v in tot.items() if v[0] == best]
    bestm = min(Fraction(v[0], v[1]) for v in tot.values())
    arg2 = [c for c, v in tot.items() if Fraction(v[0], v[1]) == bestm]
    return arg1 == [lag] and arg2 == [lag]


def run_tm(c):
    r = Res()
    if c['kind'] == 'tm-long':
        m = lcg_perm(c['n'], c['j'])
        name = 'lcg_perm(%d, %d)' % (c['n'], c['j'])
        r.cls('tm-long-cluster')
        r.cls('tm-length-odd' if c['n'] % 2 else 'tm-length-even')
        _tm_body(r, m, name, (c['steps'],), TM_LONG_SHAPES, TM_VARIANTS[:1], lag_is_unique_minimiser_long)
        return r
    m = list(c['master'])
    shapes = [(nsig, mi) for nsig in (2, 3, 4) for mi in range(nsig)]
    _tm_body(r, m, m, TM_STEPS, shapes, TM_VARIANTS, lag_is_unique_minimiser)
    return r


def _tm_body(r, m, mname, steps_menu, shapes, variants, unique):
    n = len(m)
    for steps in steps_menu:
        for lag in range(-steps + 1, steps):
            nxt = lag + 1 if lag + 1 <= steps - 1 else -(steps - 1)
            lag_menu = [lag, -lag, nxt]
            lagged_m = {lg: lagged(m, lg) for lg in set(lag_menu)}
            uniq = {lg: unique(m, lagged_m[lg], lg, steps) for lg in set(lag_menu)}
            for nsig, mi in shapes:
                others = [i for i in range(nsig) if i != mi]
                lags = {o: lag_menu[j] for j, o in enumerate(others)}
                series = {o: lagged_m[lags[o]] for o in others}
                if not all(uniq[lags[o]] for o in others):
                    r.disabled['time_match: true lag not the unique minimiser'] += 1
                    continue
                for vtag, mult, off, typ in variants:
                    _tm_config(r, m, mname, n, steps, lag, nsig, mi, others, lags, series, vtag, mult, off, typ)


def _tm_config(r, m, mname, n, steps, lag, nsig, mi, others, lags, series, vtag, mult, off, typ):
    sub = {'master': mname, 'steps': steps, 'lag': lag, 'nsig': nsig, 'master_index': mi}
    plain = vtag == 'f64'
    if not plain:
        sub['values'] = vtag
        r.cls('tm-variant-' + vtag.split(' ')[0] + ('-transformed' if ' ' in vtag else ''))
    r.states += 1
    if lag != 0:
        r.nontrivial += 1
    if plain:
        r.cls('tm-lag-positive' if lag > 0 else ('tm-lag-negative' if lag < 0 else 'tm-lag-zero'))
        if abs(lag) == steps - 1:
            r.cls('tm-max-lag')
        r.cls('tm-nsig-%d' % nsig)
        r.cls('tm-master-0' if mi == 0 else 'tm-master-nonzero')
    fm, fo = float(mult), float(off)

    def tr(xs):
        if typ is float:
            return np.array(xs, dtype=float) * fm + fo          # exact: dyadic multiplier, small integers
        return np.array(xs, dtype=typ)
    vals = [None] * nsig
    vals[mi] = tr(m)
    for o in others:
        vals[o] = tr(series[o])
    mx = [float(v) for v in vals[mi]]
    at = 1e-12 * (fm if off == 0 else max(abs(v) for v in mx))

    sub_plain = sub
    for reassigned in ((False, True) if plain and n <= 64 else (False,)):
      if reassigned:
        # the master chosen AFTER construction through the public attribute (the cluster was built with another master)
        sub = dict(sub_plain, master_assigned_after_construction=True)
        r.cls('tm-master-reassigned')

      def go():
        cl = eqsig.Cluster([v.copy() for v in vals], TM_DT, master_index=((mi + 1) % nsig if reassigned else mi))
        if reassigned:
            cl.master_index = mi
        cl.time_match(steps=steps)
        return cl
      ok, cl = r.call('time_match.call', sub, go)
      if not ok:
        continue
      _tm_post(r, cl, sub, n, mi, others, lags, mx, at, vals, mname)


def _tm_post(r, cl, sub, n, mi, others, lags, mx, at, vals, mname):
    for o in others:
        s2 = dict(sub, signal=o, signal_lag=lags[o])
        r.transitions += 1
        try:
            sig = cl.signal_by_index(o)
            v = sig.values
            npts = sig.npts
        except Exception as e:  # noqa
            r.fail('time_match.call', s2, 'cannot read the matched signal: %r' % (e,))
            continue
        r.expect('time_match.values-ndarray', s2, isinstance(v, np.ndarray),
                 'values is a %s after time_match, not an ndarray' % type(v).__name__, observed=v)
        try:
            ln = len(v)
        except Exception:
            ln = None
        r.expect('time_match.length', s2, ln == n and npts == n, 'length changed', observed=(ln, npts), expected=n)
        lg = lags[o]
        try:
            got = list(v)[:n - lg] if lg >= 0 else list(v)[-lg:]
        except Exception:
            got = None
        want = mx[:n - lg] if lg >= 0 else mx[-lg:]
        r.expect_close('time_match.overlap', s2, got, want, rtol=0.0, atol=at,
                       what='overlapping samples vs master after removing lag %d' % lg)
    try:
        mv = cl.signal_by_index(mi).values
    except Exception:
        mv = None
    r.expect('time_match.master-unchanged', sub, isinstance(mv, np.ndarray) and bits_equal(mv, vals[mi]),
             'master signal was modified', observed=mv, expected=mx if n <= 64 else mname)


# ---------------------------------------------------------------------------------------------
# same_start
# ---------------------------------------------------------------------------------------------
def _mean(xs):
    return math.fsum(xs) / len(xs)


def run_ss(c):
    r = Res()
    m, L = c['m'], c['L']
    fam = ss_family(c['family'], L)
    head = [list(h) for h in c['head']]
    vname = c.get('variant')
    mult, off = ([(mu, of) for nm, mu, of in SS_VARIANTS if nm == vname] or [(1, 0)])[0]
    fm, fo = float(mult), float(off)
    tol = 1e-12 * (abs(fo) + (3.0 * fm if vname else 1.0))      # relative to the size of the samples
    arrs = {tuple(w): np.array(w, dtype=float) * fm + fo for w in fam}       # exact: dyadic multiplier, small integers
    for h in head:
        arrs[tuple(h)] = np.array(h, dtype=float) * fm + fo
    olds = {k: [float(x) for x in v] for k, v in arrs.items()}
    n_states = n_cmp = n_trans = n_nontriv = 0
    ccount = {}

    def cc(name):
        ccount[name] = ccount.get(name, 0) + 1
    menu = c.get('menu')
    if menu:
        dt, wins = SS_MENUS[menu]
        relation = True
        windows = [(w, True) for w in wins]
    else:
        dt = SS_DT
        relation = L in OFFGRID_L
        windows = [(w, True) for w in WINDOWS] + ([(w, False) for w in OFFGRID_WINDOWS] if relation else [])
    for tail in itertools.product(fam, repeat=m - len(head)):
        ws = head + list(tail)
        for mi in range(m):
            for (start, end), ongrid in windows:
                es, ee = (0 if start == OM else start), (1 if end == OM else end)       # the section that was chosen
                kw = {}
                if start != OM:
                    kw['start'] = start
                if end != OM:
                    kw['end'] = end
                if menu:
                    iw = SS_MENU_INDEX_WINDOWS[menu][(es, ee)]
                    if end != OM and end == 0:
                        cc('ss-end-zero-float' if isinstance(end, float) else 'ss-end-zero-int')
                        cc('ss-first-sample-only')
                        if dt == 0.5:
                            # does it matter that end=0 is not the default end=1?  (shifts of the two sections differ)
                            if any(_mean(ws[j][0:1]) - _mean(ws[mi][0:1]) != _mean(ws[j][0:3]) - _mean(ws[mi][0:3])
                                   for j in range(m) if j != mi):
                                cc('ss-zero-end-shift-differs-from-default-end-shift')
                    if isinstance(start, float) and start == 0:
                        cc('ss-start-zero-float')
                    if start == OM:
                        cc('ss-start-omitted')
                    if end == OM:
                        cc('ss-end-omitted')
                    if start == OM and end == OM:
                        cc('ss-both-omitted')
                    if iw[0][1] - iw[0][0] == 1:
                        cc('ss-single-sample-window')
                    if iw[0][1] == L:
                        cc('ss-window-ends-on-last-sample')
                else:
                    iw = SS_INDEX_WINDOWS[(start, end)] if ongrid else SS_OFFGRID_INDEX_WINDOWS[(start, end)]
                n_states += 1
                moved = False
                for s0, e0 in (iw[:1] if ongrid else iw):
                    mavg = _mean(ws[mi][s0:e0])
                    moved = moved or any(_mean(ws[j][s0:e0]) != mavg for j in range(m) if j != mi)
                if moved:
                    n_nontriv += 1
                    cc('ss-shift-nonzero')
                    if menu:
                        cc('ss-menu-shift-nonzero')
                else:
                    cc('ss-already-aligned')
                cc('ss-nsig-%d' % m)
                if mi == 0:
                    cc('ss-master-0')
                if mi == 1:
                    cc('ss-master-1')
                if mi == m - 1:
                    cc('ss-master-last')
                if ongrid:
                    cc('ss-window-decided' if len(iw) == 1 else 'ss-window-rounding-tie')
                else:
                    cc('ss-window-off-grid')
                    if OFFGRID_GE_HALF[(start, end)]:
                        cc('ss-window-bound-fraction-ge-half')
                    else:
                        cc('ss-window-bound-fraction-lt-half')
                sub = {'words': ws, 'master_index': mi, 'start': start, 'end': end}
                if dt != SS_DT:
                    sub['dt'] = dt
                if vname:
                    sub['values'] = vname
                    cc('ss-variant-' + vname.split(' ')[0])
                    if moved:
                        cc('ss-variant-shift-nonzero')
                r.evals += 1
                try:
                    cl = eqsig.Cluster([arrs[tuple(w)].copy() for w in ws], dt, master_index=mi)
                    cl.same_start(**kw)
                    new = []
                    for j in range(m):
                        v = cl.values_by_index(j)
                        new.append([float(x) for x in v])
                except Exception as e:  # noqa
                    n_cmp += 1
                    r.fail('same_start.call', sub, 'raises %s: %s' % (type(e).__name__, str(e)[:200]))
                    continue
                if relation:
                    # the chosen section average as the library itself reports it for the same bounds
                    cc('ss-reported-average-relation')
                    try:
                        rep_avg = [float(cl.signal_by_index(j).get_section_average(start=es, end=ee)) for j in range(m)]
                    except Exception as e:  # noqa
                        n_cmp += 1
                        r.fail('same_start.section-average-reported', sub,
                               'get_section_average(start, end) raises %s: %s' % (type(e).__name__, str(e)[:200]))
                        rep_avg = None
                    if rep_avg is not None:
                        for j in range(m):
                            if j == mi:
                                continue
                            n_cmp += 1
                            if not abs(rep_avg[j] - rep_avg[mi]) <= tol:
                                r.fail('same_start.section-average-reported', dict(sub, signal=j),
                                       'after same_start(start, end) signal %d reports get_section_average(start, end) = %r, '
                                       'the master reports %r' % (j, rep_avg[j], rep_avg[mi]),
                                       observed=new[j], expected=rep_avg[mi])
                # master unchanged
                n_cmp += 1
                if new[mi] != olds[tuple(ws[mi])]:
                    r.fail('same_start.master-unchanged', sub, 'master signal was modified', observed=new[mi],
                           expected=olds[tuple(ws[mi])])
                # section averages (on-grid windows): choose the admissible index window that fits best, report the misfits
                best = None
                for (s_i, e_i) in (iw if ongrid else ()):
                    ref = _mean(new[mi][s_i:e_i])
                    bad = []
                    for j in range(m):
                        if j == mi:
                            continue
                        if len(new[j]) != L:
                            bad.append((j, None, ref))
                            continue
                        a = _mean(new[j][s_i:e_i])
                        if not abs(a - ref) <= tol:
                            bad.append((j, a, ref))
                    if best is None or len(bad) < len(best):
                        best = bad
                for j in range(m):
                    if j == mi:
                        continue
                    n_trans += 1
                    n_cmp += 2 if ongrid else 1
                    # differs from its old self by one constant
                    oj = olds[tuple(ws[j])]
                    if len(new[j]) != L:
                        r.fail('same_start.constant-shift', dict(sub, signal=j), 'length changed', observed=new[j], expected=oj)
                    else:
                        d = [x - y for x, y in zip(new[j], oj)]
                        if not (max(d) - min(d) <= tol):
                            r.fail('same_start.constant-shift', dict(sub, signal=j),
                                   'signal does not differ from its old self by one constant', observed=new[j], expected=oj)
                for j, a, ref in (best or ()):
                    r.fail('same_start.section-average', dict(sub, signal=j),
                           'section average of signal %d is %r, the master\'s is %r' % (j, a, ref),
                           observed=new[j], expected=ref)
                # ---- the same cluster aligned AGAIN after its members were edited through their own public methods (plain, acceleration
                #      and mixed clusters): whatever a signal keeps about a section must not survive a change of its values
                if ongrid and (start, end) == windows[0][0]:
                    for stname, st in (('custom', 'custom'), ('acc', 'acc'), ('mixed', ['acc' if j % 2 == 0 else 'custom' for j in range(m)]),
                                       ('custom, master assigned after construction', 'custom')):
                        sub2 = dict(sub, stypes=stname, sequence='same_start, add_constant to every member, same_start')
                        cc('ss-realigned-after-edit')
                        r.evals += 1
                        try:
                            if stname.startswith('custom, master'):
                                cl = eqsig.Cluster([arrs[tuple(w)].copy() for w in ws], dt, master_index=(mi + 1) % m, stypes=st)
                                cl.master_index = mi
                            else:
                                cl = eqsig.Cluster([arrs[tuple(w)].copy() for w in ws], dt, master_index=mi, stypes=st)
                            cl.same_start(**kw)
                            for j in range(m):
                                cl.signal_by_index(j).add_constant(0.5 * (j + 1) * (-1) ** j)
                            held = [float(x) for x in cl.values_by_index(mi)]
                            cl.same_start(**kw)
                            cl.same_start(**kw)         # and once more: nothing is left to do
                            new2 = [[float(x) for x in cl.values_by_index(j)] for j in range(m)]
                        except Exception as e:  # noqa
                            n_cmp += 1
                            r.fail('same_start.realign', sub2, 'raises %s: %s' % (type(e).__name__, str(e)[:200]))
                            continue
                        n_cmp += 1
                        if new2[mi] != held:
                            r.fail('same_start.master-unchanged', sub2, 'master signal was modified by the second alignment', observed=new2[mi],
                                   expected=held)
                        best2 = None
                        for (s_i, e_i) in iw:
                            ref = _mean(new2[mi][s_i:e_i])
                            bad = [(j, _mean(new2[j][s_i:e_i]), ref) for j in range(m)
                                   if j != mi and (len(new2[j]) != L or not abs(_mean(new2[j][s_i:e_i]) - ref) <= tol)]
                            if best2 is None or len(bad) < len(best2):
                                best2 = bad
                        n_cmp += m - 1
                        n_trans += m - 1
                        for j, a, ref in (best2 or ()):
                            r.fail('same_start.realign', dict(sub2, signal=j),
                                   'after editing the members and aligning again the section average of signal %d is %r, the master\'s is %r'
                                   % (j, a, ref), observed=new2[j], expected=ref)
    r.states += n_states
    r.n_cmp += n_cmp
    r.transitions += n_trans
    r.nontrivial += n_nontriv
    for k, v in ccount.items():
        r.cls(k, v)
    return r


def run_case(c):
    if c['kind'] == 'rot':
        return run_rot(c)
    if c['kind'] in ('tm', 'tm-long'):
        return run_tm(c)
    return run_ss(c)


def snippet(case, v):
    sub = v.get('sub') or {}
    head = "import numpy as np, eqsig\nsub = %r\n" % (sub,)
    if case.get('kind') == 'rot':
        return head + (
            "# sub.get('values'): container / scaling of the components (v*mult+offset, see ROT_VARIANTS in mcheck/props/c18.py)\n"
            "ns = eqsig.AccSignal(np.array(sub['ns'], float), 0.01); we = eqsig.AccSignal(np.array(sub['we'], float), 0.01)\n"
            "if 'theta' in sub:\n"
            "    th = np.radians(sub['theta']); print(eqsig.combine_at_angle(ns, we, sub['theta']).values)\n"
            "    print(ns.values * np.cos(th) + we.values * np.sin(th)); print(eqsig.combine_at_angle(ns, we, sub['theta'] + 180).values)\n"
            "else:\n"
            "    m = sub['measure']; kw = {'parameter': m} if not m.startswith('func') else \\\n"
            "        {'func': {'func-scalar': (lambda s: float(np.sum(np.abs(s.values)))), 'func-lambda-max': (lambda s: float(np.max(s.values))),\n"
            "                  'func-lambda-sumsq': (lambda s: float(np.sum(s.values ** 2)))}.get(m, lambda s: np.cumsum(s.values))}\n"
            "    if sub['offset'] != 'omitted': kw.update(angle_off_ns=sub['offset'], points=sub['points'])\n"
            "    print(eqsig.compute_rotated(ns, we, **kw))\n")
    if case.get('kind') in ('tm', 'tm-long'):
        return head + (
            "m = sub['master']   # a name 'lcg_perm(n, j)': see lcg_perm in mcheck/props/c18.py; sub.get('values'): TM_VARIANTS\n"
            "n = len(m); st = sub['steps']; l = sub['lag']\n"
            "def lagged(m, lag):\n"
            "    return [m[0]] * lag + m[:n - lag] if lag > 0 else (m[-lag:] + [m[-1]] * (-lag) if lag < 0 else list(m))\n"
            "menu = [l, -l, l + 1 if l + 1 <= st - 1 else -(st - 1)]\n"
            "others = [i for i in range(sub['nsig']) if i != sub['master_index']]\n"
            "vals = [None] * sub['nsig']; vals[sub['master_index']] = np.array(m, float)\n"
            "for j, o in enumerate(others): vals[o] = np.array(lagged(m, menu[j]), float)\n"
            "c = eqsig.Cluster(vals, 0.1, master_index=sub['master_index']); c.time_match(steps=st)\n"
            "for i in range(sub['nsig']): print(i, type(c.values_by_index(i)).__name__, [float(x) for x in c.values_by_index(i)])\n")
    return head + (
        "mult, off = {'tiny': (2.0 ** -30, 0.0), 'level': (2.0 ** -10, 2.0 ** 10)}.get(str(sub.get('values')).split(' ')[0], (1.0, 0.0))\n"
        "c = eqsig.Cluster([np.array(w, float) * mult + off for w in sub['words']], sub.get('dt', 0.1), master_index=sub['master_index'])\n"
        "kw = {k: sub[k] for k in ('start', 'end') if sub[k] != 'omitted'}      # 'omitted': keyword not passed (defaults 0 and 1)\n"
        "c.same_start(**kw)\n"
        "eff = {'start': kw.get('start', 0), 'end': kw.get('end', 1)}\n"
        "for i in range(len(sub['words'])):\n"
        "    print(i, c.values_by_index(i), c.signal_by_index(i).get_section_average(**eff))\n")
