"""C17 - Butterworth filtering (zero phase, analytic gain, linear), polynomial detrending,
adding, running average.

Three case kinds share one pool (interleaved so that the heavy filter cases do not pile up
in one chunk):

* 'gain'  (engine G)  one filter setting (cut-off pair x container x order x Gibbs option)
          with every on-grid sinusoid (bin x phase) inside: N = 4096, dt = 0.01.  Oracle: on the
          middle third the output is |H(f)|^2 times the input, same phase, |H|^2 being the analytic
          digital Butterworth squared magnitude (bilinear transform with pre-warping, plain
          math.tan - no scipy in the oracle).  Length / dt preserved; filter_order defaults to 4: calls that omit
          the order (and the Gibbs option) are interleaved with the explicit calls at every order, see run_gain.
* 'lin'   (engine T)  the same setting on N = 40: all 40 impulse responses and all 1600 ordered
          pairs e_i + 2 e_j: bp(x + 2y) = bp(x) + 2 bp(y).
* 'word'  (engine T)  one non-zero word over {-1,0,2}: detrending (exact-rational least squares
          reference), add_constant / add_series / add_signal (+ rejections), running average
          (exact-rational window means), every configuration inside.
"""
import math
from fractions import Fraction

import numpy as np

from ..target import eqsig, generic, eq_exceptions
from ..result import Res
from ..compare import words, bits_equal

SIGMA = (-1, 0, 2)
N_LONG = 4096
N_SHORT = 40
DT = 0.01
CUTS = ((1, 10), (0.5, 2), (None, 10), (2, None))
ORDERS = (1, 2, 3, 4)
GIBBS = (None, 'start', 'end', 'mid')
BINS = (20, 41, 82, 164, 328, 410, 655, 1000, 1500)
PHASES = (0, 1)
WIDTHS = tuple(range(1, 26))
DEGREES = (0, 1, 2, 3, 4)
WORD_DT = 0.1
ADD_CONSTANTS = (1.5, -2, 0)
COMBO = (1, -2, 3, -4, 5)

GAIN_TOL = 1e-6            # unit-amplitude input, absolute
GAIN_TOL_NARROW = 1e-3     # band-pass with f2/f1 <= 4 at orders 3-4 (transfer-function form ill-conditioned)


def settings():
    out = []
    for order in ORDERS:
        for gibbs in GIBBS:
            for cut in CUTS:
                conts = ('tuple', 'list', 'ndarray') if (cut[0] is not None and cut[1] is not None) else ('tuple', 'list')
                for cont in conts:
                    out.append({'cut': list(cut), 'container': cont, 'order': order, 'gibbs': gibbs})
    return out


def build(tier, seed):
    L = 7 if tier == 'quick' else 9
    wcases = [{'kind': 'word', 'w': list(w)} for w in words(SIGMA, 2, L, nonzero=True)]
    heavy = []
    for s in settings():
        heavy.append(dict(s, kind='gain'))
        heavy.append(dict(s, kind='lin'))
    # deterministic interleave (order inside each kind is canonical, simplest first)
    keyed = [((i + 0.5) / len(wcases), 0, i, c) for i, c in enumerate(wcases)]
    keyed += [((j + 0.5) / len(heavy), 1, j, c) for j, c in enumerate(heavy)]
    keyed.sort(key=lambda t: t[:3])
    cases = [t[3] for t in keyed]
    return {
        'cases': cases,
        'rule': "kind 'gain': complete product cut-offs %s x container {tuple, list, ndarray (band-pass only)} x order %s x "
                "remove_gibbs %s (one pool case each; same menu in both tiers, nothing thinned) with all bins k in %s x "
                "phase %s inside, N=%d, dt=%g, each sinusoid through the call sequence [cut-offs only] ... [explicit order and Gibbs option; "
                "order omitted (documented default 4); cut-offs only] at EVERY order, the two cut-offs-only results compared "
                "bit for bit; kind 'lin': same settings, N=%d, all 40 "
                "impulses and all 1600 ordered pairs e_i+2e_j; kind 'word': all non-zero words over {-1,0,2} of length 2..%d "
                "x (degree 0..4 with k<=L-2 x {object, array fn} x {direct, idempotence, k+2 added polynomials}; "
                "add_constant/add_series/add_signal x {Signal, AccSignal} x {float, int} + 8 rejections; widths 1..25 x "
                "{float, int}).  non-trivial = non-zero word, or (setting, sinusoid) with analytic gain in (1e-3, 1-1e-3), "
                "or impulse pair with i != j"
                % ([list(c) for c in CUTS], list(ORDERS), list(GIBBS), list(BINS), list(PHASES), N_LONG, DT, N_SHORT, L),
        'bounds': {'alphabet': SIGMA, 'max_len': L, 'cut_offs': [list(c) for c in CUTS], 'orders': ORDERS,
                   'remove_gibbs': GIBBS, 'bins': BINS, 'phases': PHASES, 'N': N_LONG, 'dt': DT,
                   'N_linearity': N_SHORT, 'widths': [1, 25], 'degrees': DEGREES,
                   'gain_tol': {'general': GAIN_TOL, 'narrow-band orders 3-4': GAIN_TOL_NARROW},
                   'linearity_tol': 'relative to peak: 1e-10; band-pass f2/f1>4: 1e-9 (order 3), 1e-7 (order 4); narrow '
                                    'band-pass: 1e-9 (order 2), 1e-6 (order 3), 1e-3 (order 4) - about 100x the rounding noise '
                                    "measured for scipy's transfer-function form in each conditioning class"},
        'required_classes': ['type-band', 'type-low', 'type-high', 'order-1', 'order-2', 'order-3', 'order-4',
                             'gibbs-None', 'gibbs-start', 'gibbs-end', 'gibbs-mid',
                             'cutoff-tuple', 'cutoff-list', 'cutoff-ndarray',
                             'gain-pass', 'gain-transition', 'gain-stop', 'tol-narrow-band', 'default-order',
                             'default-order-after-other-order', 'default-all', 'history-pair',
                             'lin-pair', 'lin-response-nonzero',
                             'detrend-deg-0', 'detrend-deg-1', 'detrend-deg-2', 'detrend-deg-3', 'detrend-deg-4',
                             'detrend-object', 'detrend-array', 'detrend-changed', 'detrend-residual-nonzero',
                             'add-constant', 'add-series-ndarray', 'add-series-list', 'add-signal', 'add-chain',
                             'reject-length', 'reject-dt', 'reject-non-signal',
                             'runavg-float', 'runavg-int', 'runavg-clipped-left', 'runavg-clipped-right',
                             'runavg-unclipped', 'runavg-covers-all', 'runavg-changes-record'],
        'assumptions': ['filter gain/phase examined only for on-grid sinusoids of the bin menu on N=4096, dt=0.01, on the middle '
                        'third of the record; behaviour near the record ends (where the Gibbs options differ) is not '
                        'constrained by the property and not examined',
                        'reference gain: 1/(1+x^(2n)) with x from math.tan pre-warped frequencies (own derivation)',
                        'detrend reference: exact rational least squares (normal equations in fractions.Fraction on the '
                        'integer grid; the best fit is invariant under the affine map to linspace(0,1))',
                        'running-average reference: exact rational window means with the window clipped at the record ends',
                        'sample values outside {-1,0,2} and word lengths above the bound are not examined']}


# ---------------------------------------------------------------------------------------------
# reference models
# ---------------------------------------------------------------------------------------------
def gain2(f, dt, order, lo, hi):
    """Squared magnitude of the digital Butterworth filter obtained by the bilinear transform
    with pre-warped cut-offs: the analogue prototype 1/(1+x^2n) evaluated at the warped frequency."""
    t = math.tan(math.pi * f * dt)
    if lo is not None and hi is not None:
        t1 = math.tan(math.pi * lo * dt)
        t2 = math.tan(math.pi * hi * dt)
        x = (t * t - t1 * t2) / (t * (t2 - t1))
    elif lo is None:
        x = t / math.tan(math.pi * hi * dt)
    else:
        x = math.tan(math.pi * lo * dt) / t
    return 1.0 / (1.0 + x ** (2 * order))


def is_band(cut):
    return cut[0] is not None and cut[1] is not None


def is_narrow(cut):
    return is_band(cut) and float(cut[1]) / float(cut[0]) <= 4


def gain_tol(cut, order):
    return GAIN_TOL_NARROW if (is_narrow(cut) and order >= 3) else GAIN_TOL


def lin_tol(cut, order):
    """Linearity tolerance relative to the peak of the expected output, per conditioning class of
    scipy's transfer-function form (rounding noise is amplified by clustered poles)."""
    if is_band(cut):
        if is_narrow(cut):
            return {1: 1e-10, 2: 1e-9, 3: 1e-6, 4: 1e-3}[order]
        return {1: 1e-10, 2: 1e-10, 3: 1e-9, 4: 1e-7}[order]
    return 1e-10


def make_cut(cut, cont):
    if cont == 'tuple':
        return (cut[0], cut[1])
    if cont == 'list':
        return [cut[0], cut[1]]
    return np.array([float(cut[0]), float(cut[1])])


_P = {}


def _solve_inverse(G):
    """Inverse of a small square Fraction matrix by Gauss-Jordan elimination."""
    m = len(G)
    A = [list(G[i]) + [Fraction(int(i == j)) for j in range(m)] for i in range(m)]
    for c in range(m):
        p = next(i for i in range(c, m) if A[i][c] != 0)
        A[c], A[p] = A[p], A[c]
        piv = A[c][c]
        A[c] = [v / piv for v in A[c]]
        for i in range(m):
            if i != c and A[i][c] != 0:
                f = A[i][c]
                A[i] = [vi - f * vc for vi, vc in zip(A[i], A[c])]
    return [row[m:] for row in A]


def projector(n, k):
    """Exact orthogonal projector onto polynomials of degree <= k sampled on a uniform grid of n
    points (normal equations, monomials in the integer abscissa)."""
    key = (n, k)
    if key not in _P:
        V = [[Fraction(i) ** j for j in range(k + 1)] for i in range(n)]
        G = [[sum(V[i][p] * V[i][q] for i in range(n)) for q in range(k + 1)] for p in range(k + 1)]
        Gi = _solve_inverse(G)
        VG = [[sum(V[i][p] * Gi[p][q] for p in range(k + 1)) for q in range(k + 1)] for i in range(n)]
        _P[key] = [[sum(VG[i][q] * V[j][q] for q in range(k + 1)) for j in range(n)] for i in range(n)]
    return _P[key]


def best_fit(y, k):
    """Values on the grid of the least-squares polynomial of degree <= k through the exact
    rationals y (list of Fraction)."""
    P = projector(len(y), k)
    return [sum(pij * yj for pij, yj in zip(row, y) if yj != 0) for row in P]


def fl(xs):
    return np.array([float(v) for v in xs], dtype=float)


def as_fracs(arr):
    """Exact rationals of a 1-d float result; None if it is not a finite 1-d numeric series."""
    try:
        a = np.asarray(arr, dtype=float)
        if a.ndim != 1 or not np.all(np.isfinite(a)):
            return None
        return [Fraction(float(v)) for v in a]
    except Exception:
        return None


# ---------------------------------------------------------------------------------------------
# filter cases
# ---------------------------------------------------------------------------------------------
def _setting_classes(r, c):
    cut = c['cut']
    r.cls('type-band' if is_band(cut) else ('type-low' if cut[0] is None else 'type-high'))
    r.cls('order-%d' % c['order'])
    r.cls('gibbs-%s' % c['gibbs'])
    r.cls('cutoff-%s' % c['container'])


_CUT = {}


def _filter(values, dt, c, default_order=False, default_gibbs=False):
    """The cut-off container is built once per pool case and the SAME object is handed to every butter_pass call of the case
    (the way a caller filters several records with one setting); it is snapshot-checked after each call (see _cut_unchanged).
    default_order / default_gibbs: the keyword is omitted (documented defaults: filter_order 4, remove_gibbs None)."""
    s = eqsig.Signal(values, dt)
    kw = {}
    if not default_gibbs:
        kw['remove_gibbs'] = c['gibbs']
    if not default_order:
        kw['filter_order'] = c['order']
    key = (repr(c['cut']), c['container'])
    if _CUT.get('key') != key:
        _CUT.clear()
        _CUT.update(key=key, obj=make_cut(c['cut'], c['container']))
        _CUT['snap'] = _snap_cut(_CUT['obj'])
    s.butter_pass(_CUT['obj'], **kw)
    return s


def _snap_cut(obj):
    return (type(obj).__name__, obj.dtype.str, obj.tobytes()) if isinstance(obj, np.ndarray) else (type(obj).__name__, repr(obj))


def _cut_unchanged(r, sub):
    """the caller's cut-off container must not be modified by butter_pass (reported once, then rebuilt)"""
    if 'obj' not in _CUT:
        return
    r.n_cmp += 1
    if _snap_cut(_CUT['obj']) != _CUT['snap']:
        r.fail('filter.cutoff-unchanged', sub, "butter_pass modified the caller's cut-off container: now %r" % (_CUT['obj'],))
        _CUT.clear()


def _shape_ok(r, sub, s, n, dt):
    try:
        v = s.values
        good = (len(v) == n and s.npts == n and s.dt == dt and np.asarray(v).ndim == 1)
        obs = (len(v), s.npts, s.dt)
    except Exception as e:  # noqa
        good, obs = False, repr(e)
    return r.expect('filter.length-dt', sub, good, 'length or time step not preserved', observed=obs, expected=(n, n, dt))


def run_gain(c):
    """Call sequence of one case (every call on a fresh Signal, all with the same cut-off object):
      pass 1, per sinusoid:  butter_pass(cut)                                   nothing but the cut-offs ('all-omitted')
      pass 2, per sinusoid:  butter_pass(cut, filter_order=n, remove_gibbs=g)   'explicit'
                             butter_pass(cut, remove_gibbs=g)                   'default' (order omitted -> documented 4)
                             butter_pass(cut)                                   'all-omitted' again
    so that calls relying on the documented defaults are interleaved with calls that give every order 1..4 and every
    Gibbs option explicitly.  "Of the requested order": a call that does not request an order has the gain of the
    documented default order 4 whatever was requested in earlier calls on other records; and the identical call on the
    identical record gives the identical result before and after them (the two all-omitted calls; bit-for-bit, it is
    the same computation twice)."""
    r = Res()
    _CUT.clear()
    cut, order = c['cut'], c['order']
    base = {'cut': cut, 'container': c['container'], 'order': order, 'gibbs': c['gibbs'], 'N': N_LONG}
    _setting_classes(r, c)
    tol = gain_tol(cut, order)
    tol4 = gain_tol(cut, 4)
    if tol == GAIN_TOL_NARROW:
        r.cls('tol-narrow-band')
    t = np.arange(N_LONG) * DT
    mid = slice(N_LONG // 3, 2 * N_LONG // 3)
    first = True
    before = {}
    for rnd in ('before', 'interleaved'):
        modes = ('all-omitted',) if rnd == 'before' else ('explicit', 'default', 'all-omitted')
        for k in BINS:
            f = k / (N_LONG * DT)
            g = gain2(f, DT, order, cut[0], cut[1])
            g4 = gain2(f, DT, 4, cut[0], cut[1])
            for ph in PHASES:
                x = np.sin(2 * np.pi * f * t + ph)
                if rnd == 'interleaved':
                    if 1e-3 < g < 1 - 1e-3:
                        r.nontrivial += 1
                    r.cls('gain-pass' if g > 0.9 else ('gain-stop' if g < 0.1 else 'gain-transition'))
                for mode in modes:
                    sub = dict(base, k=k, phase=ph)
                    if mode == 'default':
                        sub['order_arg'] = 'omitted'
                        r.cls('default-order')
                        if order != 4:
                            r.cls('default-order-after-other-order')
                    elif mode == 'all-omitted':
                        sub['order_arg'] = 'omitted'
                        sub['gibbs_arg'] = 'omitted'
                        sub['when'] = 'first' if rnd == 'before' else 'after-explicit'
                        r.cls('default-all')
                    r.states += 1
                    gclaim = 'filter.gain-phase' if mode == 'explicit' else 'filter.default-order'
                    ok, s = r.call('filter.cutoff-container' if first else gclaim, base if first else sub, _filter, x, DT, c,
                                   mode != 'explicit', mode == 'all-omitted')
                    if not ok:
                        if first:
                            return r      # this way of giving the cut-offs is not accepted at all: one report per setting
                        continue
                    first = False
                    _cut_unchanged(r, base)
                    _shape_ok(r, sub, s, N_LONG, DT)
                    try:
                        full = np.array(s.values, copy=True)
                        got = full[mid]
                    except Exception:
                        full = got = None
                    gg, tt = (g, tol) if mode == 'explicit' else (g4, tol4)
                    r.expect_close(gclaim, sub, got, gg * x[mid], rtol=0.0, atol=tt,
                                   what='output on the middle third vs |H|^2=%.6g times input' % gg)
                    if mode == 'all-omitted':
                        if rnd == 'before':
                            before[(k, ph)] = full
                        elif before.get((k, ph)) is not None and full is not None:
                            r.transitions += 1
                            r.cls('history-pair')
                            r.expect('filter.history-independent', sub, bits_equal(full, before[(k, ph)]),
                                     'butter_pass(cut) on the same record gives a different result after calls with explicit '
                                     'filter_order=%r, remove_gibbs=%r on other records than before them' % (order, c['gibbs']),
                                     observed=full, expected=before[(k, ph)])
    return r


def run_lin(c):
    r = Res()
    _CUT.clear()
    cut, order = c['cut'], c['order']
    n = N_SHORT
    base = {'cut': cut, 'container': c['container'], 'order': order, 'gibbs': c['gibbs'], 'N': n}
    _setting_classes(r, c)
    tol = lin_tol(cut, order)
    H = []
    for i in range(n):
        e = np.zeros(n)
        e[i] = 1.0
        sub = dict(base, i=i)
        r.states += 1
        ok, s = r.call('filter.cutoff-container' if i == 0 else 'filter.linearity', base if i == 0 else sub, _filter, e, DT, c)
        if not ok:
            if i == 0:
                return r
            H.append(None)
            continue
        _cut_unchanged(r, base)
        _shape_ok(r, sub, s, n, DT)
        H.append(s.values)
        try:
            if float(np.max(np.abs(s.values))) > 0:
                r.cls('lin-response-nonzero')
        except Exception:
            pass
    for i in range(n):
        for j in range(n):
            if H[i] is None or H[j] is None:
                continue
            x = np.zeros(n)
            x[i] += 1.0
            x[j] += 2.0
            sub = dict(base, i=i, j=j)
            r.states += 1
            r.transitions += 1
            if i != j:
                r.nontrivial += 1
            r.cls('lin-pair')
            ok, s = r.call('filter.linearity', sub, _filter, x, DT, c)
            if not ok:
                continue
            try:
                want = np.asarray(H[i], dtype=float) + 2.0 * np.asarray(H[j], dtype=float)
            except Exception:
                r.fail('filter.linearity', sub, 'impulse responses cannot be combined', observed=(H[i], H[j]))
                continue
            r.expect_close('filter.linearity', sub, s.values, want, rtol=tol, atol=1e-300,
                           what='bp(e_i+2e_j) vs bp(e_i)+2bp(e_j)')
    return r


# ---------------------------------------------------------------------------------------------
# word cases
# ---------------------------------------------------------------------------------------------
def _detrend_entry(entry, arr, k):
    if entry.startswith('object'):
        s = eqsig.Signal(arr, WORD_DT)
        s.remove_poly(k)
        return s.values
    return generic.remove_poly(arr, k)


def check_detrend(r, w):
    n = len(w)
    peak = float(max(abs(v) for v in w))
    yf = [Fraction(v) for v in w]
    a = np.array(w, dtype=float)
    xg = np.arange(n) / float(n - 1)
    for k in DEGREES:
        if k > n - 2:
            continue
        fit = best_fit(yf, k)
        want = fl([y - p for y, p in zip(yf, fit)])
        r.cls('detrend-deg-%d' % k)
        if any(p != 0 for p in fit):
            r.cls('detrend-changed')
        if any(y != p for y, p in zip(yf, fit)):
            r.cls('detrend-residual-nonzero')
        for entry in ('object', 'array', 'object-int', 'array-int'):
            sub = {'w': w, 'k': k, 'entry': entry}
            r.states += 1
            arr = np.array(w, dtype=np.int64) if entry.endswith('int') else a.copy()
            ok, res = r.call('detrend.exact', sub, _detrend_entry, entry, arr, k)
            if not ok:
                continue
            r.cls('detrend-object' if entry.startswith('object') else 'detrend-array')
            # the property determines the result uniquely: record minus its exact best-fit polynomial
            r.expect_close('detrend.exact', sub, res, want, rtol=0.0, atol=1e-8 * peak,
                           what='result vs record minus exact rational best-fit polynomial')
            if entry.endswith('int'):
                continue
            rf = as_fracs(res)
            if rf is None or len(rf) != n:
                r.fail('detrend.subtracted-polynomial', sub, 'result is not a finite series of the record length', observed=res)
                continue
            # (1) what was subtracted is a polynomial of degree <= k: (k+1)-th finite differences vanish
            d = [y - v for y, v in zip(yf, rf)]
            for _ in range(k + 1):
                d = [d[i + 1] - d[i] for i in range(len(d) - 1)]
            r.expect_close('detrend.subtracted-polynomial', sub, fl(d), np.zeros(len(d)), rtol=0.0, atol=1e-7 * peak,
                           what='finite differences of order %d of (record - result)' % (k + 1))
            # (2) best-fit degree-k polynomial of the residual is zero (own exact least squares on the float result)
            r.expect_close('detrend.residual-fit-zero', sub, fl(best_fit(rf, k)), np.zeros(n), rtol=0.0, atol=1e-8 * peak,
                           what='exact best-fit degree-%d polynomial of the result' % k)
            # (3) idempotent
            r.transitions += 1
            ok, res2 = r.call('detrend.idempotent', sub, _detrend_entry, entry, np.array(res, dtype=float), k)
            if ok:
                r.expect_close('detrend.idempotent', sub, res2, res, rtol=0.0, atol=1e-8 * peak,
                               what='second application vs first')
            # (4) adding a polynomial of degree <= k beforehand changes nothing
            polys = [('3x^%d' % j, 3.0 * xg ** j) for j in range(k + 1)]
            polys.append(('combo', sum(COMBO[j] * xg ** j for j in range(k + 1))))
            for name, q in polys:
                s2 = dict(sub, added=name)
                r.states += 1
                r.transitions += 1
                y2 = a + q
                ok, res3 = r.call('detrend.poly-invariance', s2, _detrend_entry, entry, y2, k)
                if ok:
                    r.expect_close('detrend.poly-invariance', s2, res3, res, rtol=0.0,
                                   atol=1e-7 * float(np.max(np.abs(y2))) + 1e-7 * peak,
                                   what='detrend(record + polynomial) vs detrend(record)')


def _series(n):
    return [Fraction((-1) ** i * (i + 1), 2) for i in range(n)]


def check_add(r, w):
    n = len(w)
    yf = [Fraction(v) for v in w]
    sf = _series(n)
    sfl = [float(v) for v in sf]
    peak = float(max(abs(v) for v in w)) + float(max(abs(v) for v in sf)) + 2.0
    SPE = eq_exceptions.SignalProcessingError
    for host in ('Signal', 'AccSignal'):
        cls = getattr(eqsig, host)
        for dtype in ('float', 'int'):
            def mk():
                return cls(np.array(w, dtype=float if dtype == 'float' else np.int64), WORD_DT)
            base = {'w': w, 'host': host, 'dtype': dtype}

            def run(op, fn, want, claim):
                sub = dict(base, op=op)
                r.states += 1
                s = mk()
                ok, _ = r.call(claim, sub, fn, s)
                if ok:
                    r.expect_close(claim, sub, s.values, fl(want), rtol=0.0, atol=1e-12 * peak, what='element-wise sum')
                    r.expect(claim, sub, s.dt == WORD_DT and s.npts == n, 'dt / npts changed', observed=(s.dt, s.npts))

            for cst in ADD_CONSTANTS:
                r.cls('add-constant')
                run('add_constant(%r)' % (cst,), lambda s: s.add_constant(cst), [y + Fraction(cst) for y in yf], 'add.constant')
            r.cls('add-series-ndarray')
            run('add_series(ndarray)', lambda s: s.add_series(np.array(sfl)), [y + v for y, v in zip(yf, sf)], 'add.series')
            r.cls('add-series-list')
            run('add_series(list)', lambda s: s.add_series(list(sfl)), [y + v for y, v in zip(yf, sf)], 'add.series')
            for other in ('Signal', 'AccSignal'):
                r.cls('add-signal')
                run('add_signal(%s)' % other, lambda s: s.add_signal(getattr(eqsig, other)(np.array(sfl), WORD_DT)),
                    [y + v for y, v in zip(yf, sf)], 'add.signal')

            def chain(s):
                s.add_constant(1.5)
                s.add_series(list(sfl))
                s.add_signal(eqsig.Signal(np.array(sfl), WORD_DT))
            r.cls('add-chain')
            r.transitions += 3
            run('add_constant(1.5);add_series(list);add_signal(Signal)', chain,
                [y + Fraction(3, 2) + 2 * v for y, v in zip(yf, sf)], 'add.chain')

            long_ = sfl + [1.0]
            short_ = sfl[:-1]
            rejections = [
                ('reject-length', 'add_series(ndarray len+1)', lambda s: s.add_series(np.array(long_))),
                ('reject-length', 'add_series(list len-1)', lambda s: s.add_series(list(short_))),
                ('reject-length', 'add_signal(Signal len+1, same dt)', lambda s: s.add_signal(eqsig.Signal(np.array(long_), WORD_DT))),
                ('reject-dt', 'add_signal(Signal same len, dt*2)', lambda s: s.add_signal(eqsig.Signal(np.array(sfl), 2 * WORD_DT))),
                ('reject-dt', 'add_signal(AccSignal same len, dt/2)', lambda s: s.add_signal(eqsig.AccSignal(np.array(sfl), WORD_DT / 2))),
                ('reject-non-signal', 'add_signal(ndarray)', lambda s: s.add_signal(np.array(sfl))),
                ('reject-non-signal', 'add_signal(list)', lambda s: s.add_signal(list(sfl))),
                ('reject-non-signal', 'add_signal(None)', lambda s: s.add_signal(None)),
            ]
            for kcls, op, fn in rejections:
                sub = dict(base, op=op)
                r.states += 1
                r.evals += 1
                r.cls(kcls)
                s = mk()
                before = np.array(s.values, copy=True)
                try:
                    fn(s)
                    r.expect('add.' + kcls, sub, False, 'accepted instead of raising SignalProcessingError', observed=s.values)
                except SPE:
                    r.expect('add.' + kcls, sub, bits_equal(np.asarray(s.values), before) and s.npts == n,
                             'rejected, but the signal was modified', observed=s.values, expected=before)
                except Exception as e:  # noqa
                    r.expect('add.' + kcls, sub, False, 'raises %s instead of SignalProcessingError: %s' % (type(e).__name__, str(e)[:150]))


def check_running_average(r, w):
    n = len(w)
    peak = float(max(abs(v) for v in w))
    for dtype in ('float', 'int'):
        for width in WIDTHS:
            h = width // 2
            sub = {'w': w, 'width': width, 'dtype': dtype}
            r.states += 1
            r.cls('runavg-' + dtype)
            want = []
            for i in range(n):
                lo = max(0, i - h)
                hi = min(n - 1, i + h)
                want.append(Fraction(sum(w[lo:hi + 1]), hi - lo + 1))
                if i - h < 0:
                    r.cls('runavg-clipped-left')
                if i + h > n - 1:
                    r.cls('runavg-clipped-right')
                if i - h >= 0 and i + h <= n - 1:
                    r.cls('runavg-unclipped')
            if h >= n - 1:
                r.cls('runavg-covers-all')
            if any(x != Fraction(v) for x, v in zip(want, w)):
                r.cls('runavg-changes-record')
            s = eqsig.Signal(np.array(w, dtype=float if dtype == 'float' else np.int64), WORD_DT)
            ok, _ = r.call('running_average.window-mean', sub, s.running_average, width)
            if not ok:
                continue
            r.expect_close('running_average.window-mean', sub, s.values, fl(want), rtol=0.0, atol=1e-12 * peak,
                           what='each sample vs mean of the ORIGINAL samples within %d positions' % h)


def run_word(c):
    r = Res()
    w = list(c['w'])
    r.nontrivial += 1
    check_detrend(r, w)
    check_add(r, w)
    check_running_average(r, w)
    return r


def run_case(c):
    if c['kind'] == 'gain':
        return run_gain(c)
    if c['kind'] == 'lin':
        return run_lin(c)
    return run_word(c)


def snippet(case, v):
    sub = v.get('sub') or {}
    head = "import numpy as np, eqsig\nfrom eqsig.fns import generic\nsub = %r\n" % (sub,)
    if case.get('kind') in ('gain', 'lin'):
        return head + (
            "cut = sub['cut']; cont = sub['container']\n"
            "cut = tuple(cut) if cont == 'tuple' else list(cut) if cont == 'list' else np.array(cut, float)\n"
            "N = sub['N']; dt = 0.01; t = np.arange(N) * dt\n"
            "if 'k' in sub: x = np.sin(2 * np.pi * sub['k'] / (N * dt) * t + sub['phase'])\n"
            "else: x = np.zeros(N); x[sub.get('i', 0)] += 1; x[sub.get('j', sub.get('i', 0))] += 2 * ('j' in sub)\n"
            "s = eqsig.Signal(x, dt)\n"
            "kw = {} if sub.get('order_arg') else {'filter_order': sub['order']}\n"
            "if not sub.get('gibbs_arg'): kw['remove_gibbs'] = sub['gibbs']\n"
            "if sub.get('order_arg') and sub.get('when') != 'first':   # preceded by an explicit call on another record\n"
            "    eqsig.Signal(x, dt).butter_pass(cut, filter_order=sub['order'], remove_gibbs=sub['gibbs'])\n"
            "s.butter_pass(cut, **kw)\n"
            "print(len(s.values), s.dt, s.values[N // 3:N // 3 + 5], x[N // 3:N // 3 + 5])\n")
    if v.get('claim', '').startswith('running_average'):
        return head + ("s = eqsig.Signal(np.array(sub['w'], float if sub['dtype'] == 'float' else int), 0.1)\n"
                       "s.running_average(sub['width']); print(s.values)\n"
                       "h = sub['width'] // 2; w = sub['w']\n"
                       "print([np.mean(w[max(0, i - h):i + h + 1]) for i in range(len(w))])\n")
    if v.get('claim', '').startswith('detrend'):
        return head + ("a = np.array(sub['w'], float)\n"
                       "s = eqsig.Signal(a, 0.1); s.remove_poly(sub['k']); print(s.values)\n"
                       "print(generic.remove_poly(a, sub['k']))\n")
    return head + ("s = getattr(eqsig, sub.get('host', 'Signal'))(np.array(sub['w'], float if sub.get('dtype') != 'int' else int), 0.1)\n"
                   "print(sub.get('op')); # apply the operation named in sub['op'] to s, then print(s.values)\n")
