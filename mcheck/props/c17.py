"""C17 - Butterworth filtering (zero phase, analytic gain, linear), polynomial detrending,
adding, running average.

Three case kinds share one pool (interleaved so that the heavy filter cases do not pile up
in one chunk):

* 'gain'  (engine G)  one filter setting (cut-off pair x container x order x Gibbs option)
          with every on-grid sinusoid (bin x phase) inside: N = 4096, dt = 0.01.  Oracle: on the
          middle third the output is |H(f)|^2 times the input, same phase, |H|^2 being the analytic
          digital Butterworth squared magnitude (bilinear transform with pre-warping, plain
          math.tan - no scipy in the oracle).  Length / dt preserved; filter_order defaults to 4: calls that omit
          the order (and the Gibbs option) are interleaved with the explicit calls at every order, see run_gain.
* 'lin'   (engine T)  the same setting on N = 40: all 40 impulse responses and all 1600 ordered
          pairs e_i + 2 e_j: bp(x + 2y) = bp(x) + 2 bp(y).
* 'word'  (engine T)  one non-zero word over {-1,0,2}: detrending (exact-rational least squares
          reference), add_constant / add_series / add_signal (+ rejections), running average
          (exact-rational window means), every configuration inside.
* 'len'   (engine T)  one (order, Gibbs option) with every cut-off pair x every record length of LEN_MENU (odd, even,
          powers of two +-1, from the shortest length filtfilt accepts): length and time step preserved, additivity and
          homogeneity (records scaled by 2^-30 and 2^20), integer-typed / list records vs their float64 twin, and an
          object with a history vs a fresh one.

Round 3 (general lessons): 'lin' also runs on an odd length; short words are also processed in narrow / unsigned integer,
float32, list and tuple containers and at the scales 2^-30, 2^20 and on a common level of 2^20 (references: exact rationals
of the values actually passed); the added series / signals are one object per sequence of calls and snapshot-checked;
add_signal must reject a menu of close and coarse mismatched time steps (1e-7 relative ... a factor of six; both orders)
and accept an equal step written as numpy.float64; objects that held another record before (processed, lazy properties
read, auxiliary statistics generated, then reset_values) must behave like fresh ones; A-B-A call patterns.

Round 4:
* 'seq'   (engine G)  one (cross-over frequency, order, Gibbs option): A-B-A sequences over OPTION TUPLES that agree in part of
          their arguments - low-pass and high-pass at the same frequency, band-passes that have that frequency as their upper /
          lower edge, the same cut-off on a record with twice the time step, another cut-off with the same cut-off / Nyquist
          ratio, a cut-off 0.2 % higher - every unordered pair {A, B} as the calls A, B, A on fresh objects (each call against the analytic gain of ITS
          OWN setting, first and third result bit for bit equal), and every ordered pair with a common time step as two calls
          on the SAME object (gain = product of the two analytic gains).
* 'edge'  (engine G)  cut-offs next to the ends of the admissible interval 0 < f < Nyquist (0.008, 0.004 and 0.001 of the
          Nyquist frequency away from either end; low-, high- and band-pass), records long enough for the slowest filter
          transient to have died out on the middle third, sinusoids on both sides of the extreme cut-off(s).
* 'len'   also with gibbs_extra = 0 and 2 (documented int, default 1; 0 is inside its domain): length, dt, additivity.
"""
import math
from fractions import Fraction

import numpy as np

from ..target import eqsig, generic, eq_exceptions
from ..result import Res
from ..compare import words, bits_equal, snapshot

SIGMA = (-1, 0, 2)
N_LONG = 4096
N_SHORT = 40
DT = 0.01
CUTS = ((1, 10), (0.5, 2), (None, 10), (2, None))
ORDERS = (1, 2, 3, 4)
GIBBS = (None, 'start', 'end', 'mid')
BINS = (20, 41, 82, 164, 328, 410, 655, 1000, 1500)
PHASES = (0, 1)
WIDTHS = tuple(range(1, 26))
DEGREES = (0, 1, 2, 3, 4)
WORD_DT = 0.1
ADD_CONSTANTS = (1.5, -2, 0)
COMBO = (1, -2, 3, -4, 5)

# ---- length sweep (kind 'len'): "preserves length and time step, is linear" for record lengths around powers of two, odd and
#      even, from the shortest record scipy's filtfilt accepts for the order-4 band-pass (28 samples) upwards
LEN_MENU = (28, 29, 31, 32, 33, 63, 64, 65, 100, 101, 127, 128, 129, 255, 256, 257, 1000, 1001, 1023, 1024, 1025)
N_ODD = 29                 # odd record length of the linearity block
ODD_SECOND = (0, 14, 28)   # positions of the second impulse in the odd-length block (first impulse: every position)
P30 = Fraction(1, 2 ** 30)
P20 = 2 ** 20
# record containers of the sweep: the same integer samples as float64 / int64 / python list / int16 with large steps
# (x*1000) / uint8 ((x+20)*6).  RESTRICTED: the narrow types int16 / uint8 only with a Gibbs option - without padding
# butter_pass hands the narrow array to scipy's filtfilt, whose odd extension 2*x[0]-x[1:] is evaluated in that type and wraps
# around: the unchanged tree returns a wrong record (reported); float32 records are answered to ~1e-8 only and are not examined.
LEN_CONTAINERS = ('i64', 'list', 'i16 (x*1000)', 'u8 ((x+20)*6)')
# ---- words: containers / dtypes / scalings (actual samples w*mult+offset, exactly representable; references are exact
#      rationals of the values passed; 2^-30 ~ 1e-9 and 2^20 ~ 1e6 are the scale-free sub-families, w+2^20 rides on a large level)
WORD_VARIANTS = (
    ('i16 (w*10000)', 10000, 0, np.int16),
    ('u8 (w*50+50)', 50, 50, np.uint8),
    ('f32', 1, 0, np.float32),
    ('list', 1, 0, list),
    ('tuple', 1, 0, tuple),
    ('f64 (w*2^-30)', P30, 0, float),
    ('f64 (w*2^20)', P20, 0, float),
    ('f64 (w+2^20)', 1, P20, float),
)
VARIANT_MAX_LEN = 4        # container / scale / history / dt-menu handling is not a pattern question: words up to this length
# ---- time steps that differ (add_signal must reject), from one part in 1e7 to a factor of six, fine and coarse sampling
DT_PAIRS = ((0.1, 0.10000001), (0.1, 0.1000001), (1.0, 1.0000001), (0.01, 0.01004), (0.005, 0.00501), (0.5, 0.4),
            (0.4, 0.45), (0.25, 0.26), (2.0, 5.0), (10.0, 60.0))

# ---- call sequences over option tuples (kind 'seq'): cross-over frequencies [Hz]; sinusoid frequency / cut-off of the setting
CROSS = (10.0, 16.0)
SEQ_REL = (0.5, 0.8, 1.25, 2.0)
# ---- cut-offs next to the ends of the admissible interval (kind 'edge'): (distance e from the end as a fraction of the Nyquist
#      frequency, time step); record length 65.536/e samples (a power of two), so the extreme cut-off always lies 32.768 frequency
#      bins away from 0 / from the Nyquist bin and the slowest pole of the order-4 filter decays by exp(-26) over the outer
#      thirds; sinusoids: EDGE_BINS bins away from that end (0.5, 0.8, 1.25, 2 times the cut-off's distance) and bin N/4
EDGE = ((0.008, 0.01), (0.004, 0.02), (0.001, 0.005))
EDGE_BINS = (16, 26, 41, 66)
EDGE_KINDS = ('low, cut-off near 0', 'high, cut-off near 0', 'band, lower cut-off near 0', 'low, cut-off near Nyquist',
              'high, cut-off near Nyquist', 'band, upper cut-off near Nyquist', 'band, cut-offs near 0 and near Nyquist')
EDGE_PHASE = 1
GIBBS_EXTRA = (0, 2)       # besides the default 1

GAIN_TOL = 1e-6            # unit-amplitude input, absolute
GAIN_TOL_NARROW = 1e-3     # band-pass with f2/f1 <= 4 at orders 3-4 (transfer-function form ill-conditioned)


def settings():
    out = []
    for order in ORDERS:
        for gibbs in GIBBS:
            for cut in CUTS:
                conts = ('tuple', 'list', 'ndarray') if (cut[0] is not None and cut[1] is not None) else ('tuple', 'list')
                for cont in conts:
                    out.append({'cut': list(cut), 'container': cont, 'order': order, 'gibbs': gibbs})
    return out


def build(tier, seed):
    L = 7 if tier == 'quick' else 9
    wcases = [{'kind': 'word', 'w': list(w)} for w in words(SIGMA, 2, L, nonzero=True)]
    heavy = []
    for s in settings():
        heavy.append(dict(s, kind='gain'))
        heavy.append(dict(s, kind='lin'))
    lens = [{'kind': 'len', 'order': order, 'gibbs': gibbs} for order in ORDERS for gibbs in GIBBS]
    seqs = [{'kind': 'seq', 'cross': fc, 'order': order, 'gibbs': gibbs} for fc in CROSS for order in ORDERS for gibbs in GIBBS]
    edges = [{'kind': 'edge', 'edge': list(ed), 'setting': kind, 'order': order}
             for ed in EDGE for kind in EDGE_KINDS for order in ORDERS]
    # deterministic interleave (order inside each kind is canonical, simplest first)
    keyed = [((i + 0.5) / len(wcases), 0, i, c) for i, c in enumerate(wcases)]
    keyed += [((j + 0.5) / len(heavy), 1, j, c) for j, c in enumerate(heavy)]
    keyed += [((j + 0.5) / len(lens), 2, j, c) for j, c in enumerate(lens)]
    keyed += [((j + 0.5) / len(seqs), 3, j, c) for j, c in enumerate(seqs)]
    keyed += [((j + 0.5) / len(edges), 4, j, c) for j, c in enumerate(edges)]
    # every operation of the statement applied to an object WITH A HISTORY (the operation itself before, then any public edit)
    hists = [{'kind': 'hist', 'cls': cls, 'subject': sj} for cls in ('Signal', 'AccSignal') for sj in sorted(HIST_SUBJECTS)]
    keyed += [((j + 0.5) / len(hists), 5, j, c) for j, c in enumerate(hists)]
    keyed.sort(key=lambda t: t[:3])
    cases = [t[3] for t in keyed]
    return {
        'rule_more': "'hist' cases: {Signal, AccSignal} x 10 operations of the statement: operation, then each mutator of the C04 alphabet, then the operation again vs the operation on a fresh object holding the same record (remove_poly also: best-fit polynomial zero)",
        'cases': cases,
        'rule': "kind 'gain': complete product cut-offs %s x container {tuple, list, ndarray (band-pass only)} x order %s x "
                "remove_gibbs %s (one pool case each; same menu in both tiers, nothing thinned) with all bins k in %s x "
                "phase %s inside, N=%d, dt=%g, each sinusoid through the call sequence [cut-offs only] ... [explicit order and Gibbs option; "
                "order omitted (documented default 4); cut-offs only] at EVERY order, the two cut-offs-only results compared "
                "bit for bit; kind 'lin': same settings, N=%d, all 40 "
                "impulses and all 1600 ordered pairs e_i+2e_j; kind 'word': all non-zero words over {-1,0,2} of length 2..%d "
                "x (degree 0..4 with k<=L-2 x {object, array fn} x {direct, idempotence, k+2 added polynomials}; "
                "add_constant/add_series/add_signal x {Signal, AccSignal} x {float, int} + 8 rejections; widths 1..25 x "
                "{float, int}); lin also on the odd length N=%d: all impulses x second impulse at %s; kind 'len': order x "
                "remove_gibbs (one pool case each) x cut-offs x record lengths %s x {F(x), F(y), F(x+2y), F(2^-30 x), F(2^20 x), "
                "x as %s vs the same samples as float64, F on an AccSignal that held and filtered another record}: length and "
                "dt preserved, additivity, homogeneity; words of length <= %d also as %s (detrend object/array, add_*, running "
                "average), with add_series(tuple / int64 / int8 ndarray), equal dt given as numpy.float64, the mismatched "
                "time-step pairs %s in both orders, objects with a history (another record of a different length processed "
                "and read, then reset_values) and A-B-A call patterns; kind 'seq': cross-over frequency fc in %s x order x "
                "remove_gibbs (one pool case each) x every unordered pair {A, B} of the seven settings [low-pass (None, fc); high-pass "
                "(fc, None); band-pass (fc/5, fc); band-pass (fc, min(4.5 fc, 45)); low-pass (None, fc) on a record with 2 dt; "
                "high-pass (fc/2, None) on a record with 2 dt; low-pass (None, 1.002 fc)] x sinusoid at %s times the cut-off of A: calls A, B, A on fresh "
                "Signals (N=%d), each against its own analytic gain, first and third bit for bit; and every ordered pair with a "
                "common dt as two calls on one Signal (gain product); kind 'edge': (distance e of the extreme cut-off from 0 / "
                "from Nyquist as a fraction of Nyquist, dt) in %s x setting in %s x order (one pool case each) x remove_gibbs x "
                "sinusoids %s bins from that end and bin N/4, N = 65.536/e, phase %s; kind 'len' also with gibbs_extra in %s "
                "(length, dt, additivity).  non-trivial = non-zero word, or (setting, sinusoid) "
                "with analytic gain in (1e-3, 1-1e-3), or impulse pair with i != j, or (setting, length) of the sweep, or "
                "(sequence, sinusoid) at which the analytic gains of A and B differ by more than 1e-3"
                % ([list(c) for c in CUTS], list(ORDERS), list(GIBBS), list(BINS), list(PHASES), N_LONG, DT, N_SHORT, L,
                   N_ODD, list(ODD_SECOND), list(LEN_MENU), list(LEN_CONTAINERS), VARIANT_MAX_LEN,
                   [v[0] for v in WORD_VARIANTS], [list(d) for d in DT_PAIRS], list(CROSS), list(SEQ_REL), N_LONG,
                   [list(e) for e in EDGE], list(EDGE_KINDS), list(EDGE_BINS), EDGE_PHASE, list(GIBBS_EXTRA)),
        'bounds': {'alphabet': SIGMA, 'max_len': L, 'cut_offs': [list(c) for c in CUTS], 'orders': ORDERS,
                   'remove_gibbs': GIBBS, 'bins': BINS, 'phases': PHASES, 'N': N_LONG, 'dt': DT,
                   'N_linearity': [N_SHORT, N_ODD], 'odd_block_second_impulse': ODD_SECOND, 'length_sweep': LEN_MENU,
                   'length_sweep_containers': LEN_CONTAINERS, 'word_variants': [v[0] for v in WORD_VARIANTS],
                   'word_variant_max_len': VARIANT_MAX_LEN, 'mismatched_dt_pairs': DT_PAIRS,
                   'widths': [1, 25], 'degrees': DEGREES,
                   'sequence_cross_overs': CROSS, 'sequence_sinusoid_over_cutoff': SEQ_REL,
                   'edge_cutoffs (fraction of Nyquist from the end, dt)': EDGE, 'edge_settings': EDGE_KINDS,
                   'edge_sinusoid_bins_from_the_end': EDGE_BINS, 'gibbs_extra': (1,) + GIBBS_EXTRA,
                   'edge_tol': 'max(1e-6, 100 x rounding noise of the transfer-function form): noise 4e-15 e^(1-order), band-pass '
                               'with only its lower cut-off at e: 3e-16 e^(-order) (measured on the unchanged tree)',
                   'gain_tol': {'general': GAIN_TOL, 'narrow-band orders 3-4': GAIN_TOL_NARROW},
                   'linearity_tol': 'relative to peak: 1e-10; band-pass f2/f1>4: 1e-9 (order 3), 1e-7 (order 4); narrow '
                                    'band-pass: 1e-9 (order 2), 1e-6 (order 3), 1e-3 (order 4) - about 100x the rounding noise '
                                    "measured for scipy's transfer-function form in each conditioning class"},
        'required_classes': ['operation-after-history', 'type-band', 'type-low', 'type-high', 'order-1', 'order-2', 'order-3', 'order-4',
                             'gibbs-None', 'gibbs-start', 'gibbs-end', 'gibbs-mid',
                             'cutoff-tuple', 'cutoff-list', 'cutoff-ndarray',
                             'gain-pass', 'gain-transition', 'gain-stop', 'tol-narrow-band', 'default-order',
                             'default-order-after-other-order', 'default-all', 'history-pair',
                             'lin-pair', 'lin-response-nonzero', 'lin-length-even', 'lin-length-odd',
                             'len-odd', 'len-even', 'len-power-of-two', 'len-next-to-power-of-two', 'len-additivity',
                             'len-homogeneity', 'len-container-i64', 'len-container-list', 'len-container-i16',
                             'len-container-u8', 'len-history', 'len-gibbs-extra-0', 'len-gibbs-extra-2',
                             'seq-low-then-high', 'seq-high-then-low', 'seq-band-shares-cutoff', 'seq-same-cutoff-other-dt',
                             'seq-same-normalised-cutoff-other-dt', 'seq-nearly-equal-cutoff', 'seq-aba', 'seq-same-object', 'seq-gains-differ',
                             'edge-cutoff-near-zero', 'edge-cutoff-near-nyquist', 'edge-cutoffs-near-both-ends',
                             'edge-gain-transition', 'edge-gain-pass', 'edge-gain-stop', 'edge-tol-widened',
                             'detrend-variant', 'add-variant', 'runavg-variant', 'add-series-tuple', 'add-series-int',
                             'reject-dt-close', 'reject-dt-coarse', 'reject-dt-menu', 'aba-detrend', 'history-detrend',
                             'history-add', 'history-runavg',
                             'detrend-deg-0', 'detrend-deg-1', 'detrend-deg-2', 'detrend-deg-3', 'detrend-deg-4',
                             'detrend-object', 'detrend-array', 'detrend-changed', 'detrend-residual-nonzero',
                             'add-constant', 'add-series-ndarray', 'add-series-list', 'add-signal', 'add-chain',
                             'reject-length', 'reject-dt', 'reject-non-signal',
                             'runavg-float', 'runavg-int', 'runavg-clipped-left', 'runavg-clipped-right',
                             'runavg-unclipped', 'runavg-covers-all', 'runavg-changes-record'],
        'assumptions': ['filter gain/phase examined only for on-grid sinusoids of the bin menu on N=4096, dt=0.01, on the middle '
                        'third of the record; behaviour near the record ends (where the Gibbs options differ) is not '
                        'constrained by the property and not examined',
                        'reference gain: 1/(1+x^(2n)) with x from math.tan pre-warped frequencies (own derivation)',
                        'detrend reference: exact rational least squares (normal equations in fractions.Fraction on the '
                        'integer grid; the best fit is invariant under the affine map to linspace(0,1))',
                        'running-average reference: exact rational window means with the window clipped at the record ends',
                        'sample values outside {-1,0,2} and word lengths above the bound are not examined',
                        'length sweep: two fixed integer-valued records per length; lengths below 28 (the shortest record '
                        "scipy's filtfilt accepts for the order-4 band-pass without padding) are not examined",
                        'RESTRICTED: int16 / uint8 records are filtered only with a Gibbs option (without padding scipy\'s '
                        'filtfilt evaluates its odd extension in the narrow type and the unchanged tree returns a wrong record: '
                        'reported); float32 records are not examined (answered to ~1e-8)',
                        'transformed word variants: samples w*mult+offset exactly representable in the stated type, references '
                        'exact rationals of the values passed, tolerances relative to their peak; a negative python int is not '
                        'added to the unsigned record and integer series are not added to it (the sums do not fit its type)',
                        "kind 'seq' / 'edge': same oracle and middle third as kind 'gain'; 'edge' record lengths are chosen so that "
                        'the slowest filter transient (pole radius from the distance of the extreme cut-off to 0 / Nyquist) has '
                        'decayed below 1e-11 on the middle third - "much longer than the longest cut-off period" read for a '
                        'cut-off next to Nyquist as its mirror image next to 0; tolerance widened per conditioning class of the '
                        'transfer-function form (see bounds)',
                        'gibbs_extra (documented int, default 1): 0 and 2 examined for length / dt / additivity only; gibbs_range '
                        '(undocumented) is not examined',
                        'a mutator leaves the containers it was given (record, cut-offs, added series / signal) unchanged; an '
                        'object\'s earlier record, cached spectra and statistics do not influence later operations']}


# ---------------------------------------------------------------------------------------------
# reference models
# ---------------------------------------------------------------------------------------------
def gain2(f, dt, order, lo, hi):
    """Squared magnitude of the digital Butterworth filter obtained by the bilinear transform
    with pre-warped cut-offs: the analogue prototype 1/(1+x^2n) evaluated at the warped frequency."""
    t = math.tan(math.pi * f * dt)
    if lo is not None and hi is not None:
        t1 = math.tan(math.pi * lo * dt)
        t2 = math.tan(math.pi * hi * dt)
        x = (t * t - t1 * t2) / (t * (t2 - t1))
    elif lo is None:
        x = t / math.tan(math.pi * hi * dt)
    else:
        x = math.tan(math.pi * lo * dt) / t
    return 1.0 / (1.0 + x ** (2 * order))


def is_band(cut):
    return cut[0] is not None and cut[1] is not None


def is_narrow(cut):
    return is_band(cut) and float(cut[1]) / float(cut[0]) <= 4


def gain_tol(cut, order):
    return GAIN_TOL_NARROW if (is_narrow(cut) and order >= 3) else GAIN_TOL


def lin_tol(cut, order):
    """Linearity tolerance relative to the peak of the expected output, per conditioning class of
    scipy's transfer-function form (rounding noise is amplified by clustered poles)."""
    if is_band(cut):
        if is_narrow(cut):
            return {1: 1e-10, 2: 1e-9, 3: 1e-6, 4: 1e-3}[order]
        return {1: 1e-10, 2: 1e-10, 3: 1e-9, 4: 1e-7}[order]
    return 1e-10


def make_cut(cut, cont):
    if cont == 'tuple':
        return (cut[0], cut[1])
    if cont == 'list':
        return [cut[0], cut[1]]
    return np.array([float(cut[0]), float(cut[1])])


_P = {}


def _solve_inverse(G):
    """Inverse of a small square Fraction matrix by Gauss-Jordan elimination."""
    m = len(G)
    A = [list(G[i]) + [Fraction(int(i == j)) for j in range(m)] for i in range(m)]
    for c in range(m):
        p = next(i for i in range(c, m) if A[i][c] != 0)
        A[c], A[p] = A[p], A[c]
        piv = A[c][c]
        A[c] = [v / piv for v in A[c]]
        for i in range(m):
            if i != c and A[i][c] != 0:
                f = A[i][c]
                A[i] = [vi - f * vc for vi, vc in zip(A[i], A[c])]
    return [row[m:] for row in A]


def projector(n, k):
    """Exact orthogonal projector onto polynomials of degree <= k sampled on a uniform grid of n
    points (normal equations, monomials in the integer abscissa)."""
    key = (n, k)
    if key not in _P:
        V = [[Fraction(i) ** j for j in range(k + 1)] for i in range(n)]
        G = [[sum(V[i][p] * V[i][q] for i in range(n)) for q in range(k + 1)] for p in range(k + 1)]
        Gi = _solve_inverse(G)
        VG = [[sum(V[i][p] * Gi[p][q] for p in range(k + 1)) for q in range(k + 1)] for i in range(n)]
        _P[key] = [[sum(VG[i][q] * V[j][q] for q in range(k + 1)) for j in range(n)] for i in range(n)]
    return _P[key]


def best_fit(y, k):
    """Values on the grid of the least-squares polynomial of degree <= k through the exact
    rationals y (list of Fraction)."""
    P = projector(len(y), k)
    return [sum(pij * yj for pij, yj in zip(row, y) if yj != 0) for row in P]


def fl(xs):
    return np.array([float(v) for v in xs], dtype=float)


def as_fracs(arr):
    """Exact rationals of a 1-d float result; None if it is not a finite 1-d numeric series."""
    try:
        a = np.asarray(arr, dtype=float)
        if a.ndim != 1 or not np.all(np.isfinite(a)):
            return None
        return [Fraction(float(v)) for v in a]
    except Exception:
        return None


# ---------------------------------------------------------------------------------------------
# filter cases
# ---------------------------------------------------------------------------------------------
def _setting_classes(r, c):
    cut = c['cut']
    r.cls('type-band' if is_band(cut) else ('type-low' if cut[0] is None else 'type-high'))
    r.cls('order-%d' % c['order'])
    r.cls('gibbs-%s' % c['gibbs'])
    r.cls('cutoff-%s' % c['container'])


_CUT = {}


def _filter(values, dt, c, default_order=False, default_gibbs=False, gibbs_extra=None):
    """The cut-off container is built once per pool case and the SAME object is handed to every butter_pass call of the case
    (the way a caller filters several records with one setting); it is snapshot-checked after each call (see _cut_unchanged).
    default_order / default_gibbs: the keyword is omitted (documented defaults: filter_order 4, remove_gibbs None)."""
    s = eqsig.Signal(values, dt)
    kw = {}
    if not default_gibbs:
        kw['remove_gibbs'] = c['gibbs']
    if not default_order:
        kw['filter_order'] = c['order']
    if gibbs_extra is not None:
        kw['gibbs_extra'] = gibbs_extra
    key = (repr(c['cut']), c['container'])
    if _CUT.get('key') != key:
        _CUT.clear()
        _CUT.update(key=key, obj=make_cut(c['cut'], c['container']))
        _CUT['snap'] = _snap_cut(_CUT['obj'])
    s.butter_pass(_CUT['obj'], **kw)
    return s


def _snap_cut(obj):
    return (type(obj).__name__, obj.dtype.str, obj.tobytes()) if isinstance(obj, np.ndarray) else (type(obj).__name__, repr(obj))


def _cut_unchanged(r, sub):
    """the caller's cut-off container must not be modified by butter_pass (reported once, then rebuilt)"""
    if 'obj' not in _CUT:
        return
    r.n_cmp += 1
    if _snap_cut(_CUT['obj']) != _CUT['snap']:
        r.fail('filter.cutoff-unchanged', sub, "butter_pass modified the caller's cut-off container: now %r" % (_CUT['obj'],))
        _CUT.clear()


def _shape_ok(r, sub, s, n, dt):
    try:
        v = s.values
        good = (len(v) == n and s.npts == n and s.dt == dt and np.asarray(v).ndim == 1)
        obs = (len(v), s.npts, s.dt)
    except Exception as e:  # noqa
        good, obs = False, repr(e)
    return r.expect('filter.length-dt', sub, good, 'length or time step not preserved', observed=obs, expected=(n, n, dt))


def run_gain(c):
    """Call sequence of one case (every call on a fresh Signal, all with the same cut-off object):
      pass 1, per sinusoid:  butter_pass(cut)                                   nothing but the cut-offs ('all-omitted')
      pass 2, per sinusoid:  butter_pass(cut, filter_order=n, remove_gibbs=g)   'explicit'
                             butter_pass(cut, remove_gibbs=g)                   'default' (order omitted -> documented 4)
                             butter_pass(cut)                                   'all-omitted' again
    so that calls relying on the documented defaults are interleaved with calls that give every order 1..4 and every
    Gibbs option explicitly.  "Of the requested order": a call that does not request an order has the gain of the
    documented default order 4 whatever was requested in earlier calls on other records; and the identical call on the
    identical record gives the identical result before and after them (the two all-omitted calls; bit-for-bit, it is
    the same computation twice)."""
    r = Res()
    _CUT.clear()
    cut, order = c['cut'], c['order']
    base = {'cut': cut, 'container': c['container'], 'order': order, 'gibbs': c['gibbs'], 'N': N_LONG}
    _setting_classes(r, c)
    tol = gain_tol(cut, order)
    tol4 = gain_tol(cut, 4)
    if tol == GAIN_TOL_NARROW:
        r.cls('tol-narrow-band')
    t = np.arange(N_LONG) * DT
    mid = slice(N_LONG // 3, 2 * N_LONG // 3)
    first = True
    before = {}
    for rnd in ('before', 'interleaved'):
        modes = ('all-omitted',) if rnd == 'before' else ('explicit', 'default', 'all-omitted')
        for k in BINS:
            f = k / (N_LONG * DT)
            g = gain2(f, DT, order, cut[0], cut[1])
            g4 = gain2(f, DT, 4, cut[0], cut[1])
            for ph in PHASES:
                x = np.sin(2 * np.pi * f * t + ph)
                if rnd == 'interleaved':
                    if 1e-3 < g < 1 - 1e-3:
                        r.nontrivial += 1
                    r.cls('gain-pass' if g > 0.9 else ('gain-stop' if g < 0.1 else 'gain-transition'))
                for mode in modes:
                    sub = dict(base, k=k, phase=ph)
                    if mode == 'default':
                        sub['order_arg'] = 'omitted'
                        r.cls('default-order')
                        if order != 4:
                            r.cls('default-order-after-other-order')
                    elif mode == 'all-omitted':
                        sub['order_arg'] = 'omitted'
                        sub['gibbs_arg'] = 'omitted'
                        sub['when'] = 'first' if rnd == 'before' else 'after-explicit'
                        r.cls('default-all')
                    r.states += 1
                    gclaim = 'filter.gain-phase' if mode == 'explicit' else 'filter.default-order'
                    ok, s = r.call('filter.cutoff-container' if first else gclaim, base if first else sub, _filter, x, DT, c,
                                   mode != 'explicit', mode == 'all-omitted')
                    if not ok:
                        if first:
                            return r      # this way of giving the cut-offs is not accepted at all: one report per setting
                        continue
                    first = False
                    _cut_unchanged(r, base)
                    _shape_ok(r, sub, s, N_LONG, DT)
                    try:
                        full = np.array(s.values, copy=True)
                        got = full[mid]
                    except Exception:
                        full = got = None
                    gg, tt = (g, tol) if mode == 'explicit' else (g4, tol4)
                    r.expect_close(gclaim, sub, got, gg * x[mid], rtol=0.0, atol=tt,
                                   what='output on the middle third vs |H|^2=%.6g times input' % gg)
                    if mode == 'all-omitted':
                        if rnd == 'before':
                            before[(k, ph)] = full
                        elif before.get((k, ph)) is not None and full is not None:
                            r.transitions += 1
                            r.cls('history-pair')
                            r.expect('filter.history-independent', sub, bits_equal(full, before[(k, ph)]),
                                     'butter_pass(cut) on the same record gives a different result after calls with explicit '
                                     'filter_order=%r, remove_gibbs=%r on other records than before them' % (order, c['gibbs']),
                                     observed=full, expected=before[(k, ph)])
    return r


def run_lin(c):
    r = Res()
    _CUT.clear()
    _setting_classes(r, c)
    # even length: every ordered pair of impulses; odd length: every first impulse x second impulse at the first, middle, last sample
    for n, seconds in ((N_SHORT, tuple(range(N_SHORT))), (N_ODD, ODD_SECOND)):
        r.cls('lin-length-even' if n % 2 == 0 else 'lin-length-odd')
        if not _lin_block(r, c, n, seconds):
            break
    return r


def _lin_block(r, c, n, seconds):
    cut, order = c['cut'], c['order']
    base = {'cut': cut, 'container': c['container'], 'order': order, 'gibbs': c['gibbs'], 'N': n}
    tol = lin_tol(cut, order)
    H = []
    for i in range(n):
        e = np.zeros(n)
        e[i] = 1.0
        sub = dict(base, i=i)
        r.states += 1
        ok, s = r.call('filter.cutoff-container' if i == 0 else 'filter.linearity', base if i == 0 else sub, _filter, e, DT, c)
        if not ok:
            if i == 0:
                return False
            H.append(None)
            continue
        _cut_unchanged(r, base)
        _shape_ok(r, sub, s, n, DT)
        H.append(s.values)
        try:
            if float(np.max(np.abs(s.values))) > 0:
                r.cls('lin-response-nonzero')
        except Exception:
            pass
    for i in range(n):
        for j in seconds:
            if H[i] is None or H[j] is None:
                continue
            x = np.zeros(n)
            x[i] += 1.0
            x[j] += 2.0
            sub = dict(base, i=i, j=j)
            r.states += 1
            r.transitions += 1
            if i != j:
                r.nontrivial += 1
            r.cls('lin-pair')
            ok, s = r.call('filter.linearity', sub, _filter, x, DT, c)
            if not ok:
                continue
            try:
                want = np.asarray(H[i], dtype=float) + 2.0 * np.asarray(H[j], dtype=float)
            except Exception:
                r.fail('filter.linearity', sub, 'impulse responses cannot be combined', observed=(H[i], H[j]))
                continue
            _shape_ok(r, sub, s, n, DT)
            r.expect_close('filter.linearity', sub, s.values, want, rtol=tol, atol=1e-300,
                           what='bp(e_i+2e_j) vs bp(e_i)+2bp(e_j)')
    return True


# ---------------------------------------------------------------------------------------------
# length sweep
# ---------------------------------------------------------------------------------------------
def sweep_records(n):
    """two fixed integer-valued records of length n (|x| <= 20, |y| <= 8)"""
    x = [((7 * i * i + 3 * i) % 41) - 20 for i in range(n)]
    y = [((13 * i) % 17) - 8 for i in range(n)]
    return x, y


def _history_signal(cls, other, values, dt, op):
    """An object with a history: it held ANOTHER record of a different length, had `op` applied and its lazily computed
    properties read (and, for AccSignal, the auxiliary statistics generated), and was then given this record through
    reset_values.  Building the history is not what is examined: failures in it are ignored."""
    s = cls(np.array(other, dtype=float), dt)
    with np.errstate(all='ignore'):
        for step in (lambda: op(s), lambda: s.fa_spectrum, lambda: s.fa_freqs, lambda: s.smooth_fa_spectrum,
                     lambda: s.velocity, lambda: s.displacement, lambda: s.pga, lambda: s.pgv,
                     lambda: s.generate_cumulative_stats(), lambda: s.generate_duration_stats()):
            try:
                step()
            except Exception:
                pass
    s.reset_values(np.array(values, dtype=float))
    return s


def run_len(c):
    """One (order, Gibbs option): every length of LEN_MENU x every cut-off pair.  Per (length, cut-offs), all on fresh Signals
    except the last:  F(x), F(y), F(x+2y) [additivity], F(2^-30 x), F(2^20 x) [homogeneity: the filter is linear, so it is
    scale-free], F(x given as int64 / list / int16 / uint8) vs F(the same samples as float64), F on an object with a
    history vs F(x); every output keeps the length and the time step."""
    r = Res()
    _CUT.clear()
    order, gibbs = c['order'], c['gibbs']
    r.cls('order-%d' % order)
    r.cls('gibbs-%s' % gibbs)
    for cut in CUTS:
        cc = {'cut': list(cut), 'container': 'tuple', 'order': order, 'gibbs': gibbs}
        tol = lin_tol(cut, order)
        for n in LEN_MENU:
            base = dict(cc, N=n)
            xi, yi = sweep_records(n)
            x = np.array(xi, dtype=float)
            y = np.array(yi, dtype=float)
            r.nontrivial += 1
            r.cls('len-odd' if n % 2 else 'len-even')
            if n & (n - 1) == 0:
                r.cls('len-power-of-two')
            elif (n + 1) & n == 0 or (n - 1) & (n - 2) == 0:
                r.cls('len-next-to-power-of-two')

            def F(vals, what, claim='filter.length-dt', ge=None):
                sub = dict(base, record=what)
                if ge is not None:
                    sub['gibbs_extra'] = ge
                r.states += 1
                ok, sg = r.call(claim, sub, _filter, vals, DT, cc, False, False, ge)
                if not ok:
                    return None
                _cut_unchanged(r, cc)
                if not _shape_ok(r, sub, sg, n, DT):
                    return None
                return np.array(sg.values, dtype=float)
            fx = F(x, 'x')
            fy = F(y, 'y')
            if fx is None or fy is None:
                continue
            pk = float(np.max(np.abs(fx))) or 1.0
            r.transitions += 1
            r.cls('len-additivity')
            fxy = F(x + 2.0 * y, 'x+2y', 'filter.linearity')
            if fxy is not None:
                r.expect_close('filter.linearity', dict(base, record='x+2y'), fxy, fx + 2.0 * fy, rtol=tol, atol=1e-300,
                               what='F(x+2y) vs F(x)+2F(y)')
            # gibbs_extra (documented: "each increment of the value doubles the record length using zero padding", default 1):
            # 0 - inside the domain, falsy, different from the default - and 2; padding is removed again: length, dt, additivity
            for ge in (GIBBS_EXTRA if gibbs is not None else ()):
                r.transitions += 1
                r.cls('len-gibbs-extra-%d' % ge)
                gx, gy = F(x, 'x', ge=ge), F(y, 'y', ge=ge)
                gxy = F(x + 2.0 * y, 'x+2y', 'filter.linearity', ge=ge)
                if gx is not None and gy is not None and gxy is not None:
                    r.expect_close('filter.linearity', dict(base, record='x+2y', gibbs_extra=ge), gxy, gx + 2.0 * gy, rtol=tol,
                                   atol=1e-300, what='F(x+2y) vs F(x)+2F(y), gibbs_extra=%d' % ge)
            for tag, m in (('x*2^-30', float(P30)), ('x*2^20', float(P20))):
                r.transitions += 1
                r.cls('len-homogeneity')
                fs = F(x * m, tag, 'filter.linearity')
                if fs is not None:
                    r.expect_close('filter.linearity', dict(base, record=tag), fs, fx * m, rtol=max(tol, 1e-12), atol=0.0,
                                   scale=pk * m, what='F(m x) vs m F(x)')
            for cont in LEN_CONTAINERS:
                # narrow integer records also without Gibbs padding since fix f36ae18 (filtfilt used to extend them in their own dtype)
                if cont == 'i64':
                    arr = np.array(xi, dtype=np.int64)
                elif cont == 'list':
                    arr = list(xi)
                elif cont.startswith('i16'):
                    arr = np.array([1000 * v for v in xi], dtype=np.int16)
                else:
                    arr = np.array([(v + 20) * 6 for v in xi], dtype=np.uint8)
                ref = fx if cont in ('i64', 'list') else F(np.array(arr, dtype=float), cont + ' as float64')
                r.transitions += 1
                r.cls('len-container-' + cont.split(' ')[0])
                got = F(arr, cont, 'filter.record-container')
                if got is not None and ref is not None:
                    r.expect_close('filter.record-container', dict(base, record=cont), got, ref, rtol=1e-12, atol=0.0,
                                   what='F(record given as %s) vs F(the same samples as float64)' % cont)
            # object with a history (another record, 3 samples longer, filtered with the same setting, properties read)
            sub = dict(base, record='x', history='other-record-filtered-and-read')
            r.states += 1
            r.transitions += 1
            r.cls('len-history')
            other = yi + [1, -2, 3]

            def hist():
                sg = _history_signal(eqsig.AccSignal, other, x, DT,
                                     lambda o: o.butter_pass(_CUT.get('obj', tuple(cut)), filter_order=order, remove_gibbs=gibbs))
                sg.butter_pass(_CUT.get('obj', tuple(cut)), filter_order=order, remove_gibbs=gibbs)
                return sg
            ok, sg = r.call('filter.history-independent', sub, hist)
            if ok and _shape_ok(r, sub, sg, n, DT):
                r.expect_close('filter.history-independent', sub, sg.values, fx, rtol=1e-12, atol=0.0,
                               what='F on an object that held and filtered another record before vs F on a fresh object')
    return r


# ---------------------------------------------------------------------------------------------
# call sequences over option tuples
# ---------------------------------------------------------------------------------------------
def seq_settings(fc):
    """Seven option tuples that agree in part of their arguments (they all share the order and the Gibbs option of the case): the
    frequency fc as the cut-off of a low-pass and of a high-pass, as the upper and as the lower edge of a band-pass, the same
    low-pass cut-off on a record with twice the time step (same frequency, other cut-off / Nyquist ratio), a high-pass at
    fc/2 on such a record (other frequency, same cut-off / Nyquist ratio as the high-pass at fc) and a low-pass whose cut-off
    is 0.2 % above fc (nearly the same value: the gain next to the cut-off differs by up to 4e-3, the tolerance is 1e-6).
    fref: cut-off the sinusoid frequencies of the setting are taken relative to."""
    top = min(4.5 * fc, 45.0)
    return ({'name': 'low-pass (None, fc)', 'cut': [None, fc], 'container': 'tuple', 'dt': DT, 'fref': fc},
            {'name': 'high-pass (fc, None)', 'cut': [fc, None], 'container': 'list', 'dt': DT, 'fref': fc},
            {'name': 'band-pass (fc/5, fc)', 'cut': [fc / 5, fc], 'container': 'tuple', 'dt': DT, 'fref': fc},
            {'name': 'band-pass (fc, %g)' % top, 'cut': [fc, top], 'container': 'ndarray', 'dt': DT, 'fref': fc},
            {'name': 'low-pass (None, fc), 2 dt', 'cut': [None, fc], 'container': 'list', 'dt': 2 * DT, 'fref': fc},
            {'name': 'high-pass (fc/2, None), 2 dt', 'cut': [fc / 2, None], 'container': 'tuple', 'dt': 2 * DT, 'fref': fc / 2},
            {'name': 'low-pass (None, 1.002 fc)', 'cut': [None, round(1.002 * fc, 6)], 'container': 'tuple', 'dt': DT, 'fref': fc})


def _sinus(n, k, ph):
    return np.sin(np.arange(n) * (2.0 * np.pi * k / n) + ph)


def run_seq(c):
    """"Of the requested order and cut-offs" holds for every call, whatever was requested in earlier calls of the process.
    Per unordered pair {A, B} of seq_settings and per sinusoid: A, B, A on fresh Signals - every result against the analytic gain of
    the setting of THAT call (so a low-pass that follows a high-pass of the same order and frequency, and the reverse, are both
    in the sequence), first and third result bit for bit (the same computation twice).  Per ordered pair (A, B) with a common
    time step: A then B on the SAME object; zero phase twice, gain |H_A|^2 |H_B|^2."""
    r = Res()
    fc, order, gibbs = c['cross'], c['order'], c['gibbs']
    r.cls('order-%d' % order)
    r.cls('gibbs-%s' % gibbs)
    S = seq_settings(fc)
    cuts = [make_cut(st['cut'], st['container']) for st in S]      # one cut-off object per setting for the whole case
    snaps = [_snap_cut(o) for o in cuts]
    base = {'cross_over': fc, 'order': order, 'gibbs': gibbs, 'N': N_LONG}
    mid = slice(N_LONG // 3, 2 * N_LONG // 3)
    sin_cache = {}

    def sinus(k):
        if k not in sin_cache:
            sin_cache[k] = _sinus(N_LONG, k, 1)
        return sin_cache[k]

    def apply(sig, i):
        sig.butter_pass(cuts[i], filter_order=order, remove_gibbs=gibbs)
        return sig

    def g2(i, k):
        st = S[i]
        return gain2(k / (N_LONG * st['dt']), st['dt'], order, st['cut'][0], st['cut'][1])

    for a in range(len(S)):
        for b in range(a + 1, len(S)):
            A, B = S[a], S[b]
            kinds = {A['name'].split(' ')[0], B['name'].split(' ')[0]}
            if a == 0 and b == 1:
                r.cls('seq-low-then-high')
                r.cls('seq-high-then-low')
            elif 'band-pass' in kinds:
                r.cls('seq-band-shares-cutoff')
            elif A['dt'] != B['dt'] and A['cut'] == B['cut']:
                r.cls('seq-same-cutoff-other-dt')
            elif A['dt'] != B['dt'] and A['cut'][0] is not None and B['cut'][0] is not None:
                r.cls('seq-same-normalised-cutoff-other-dt')
            elif a == 0 and b == len(S) - 1:
                r.cls('seq-nearly-equal-cutoff')
            for rel in SEQ_REL:
                seq = (a, b, a)
                outs = []
                gs = []
                for pos, i in enumerate(seq):
                    st = S[i]
                    k = int(round(rel * st['fref'] * N_LONG * st['dt']))
                    x = sinus(k)
                    g = g2(i, k)
                    gs.append(g)
                    sub = dict(base, sequence=[S[j]['name'] for j in seq], position=pos, setting=st['name'], rel=rel, k=k, phase=1,
                               calls=[[S[j]['cut'], S[j]['container'], S[j]['dt'], int(round(rel * S[j]['fref'] * N_LONG * S[j]['dt']))]
                                      for j in seq])
                    r.states += 1
                    if pos:
                        r.transitions += 1
                    ok, sg = r.call('filter.sequence-gain', sub, lambda: apply(eqsig.Signal(x, st['dt']), i))
                    if not ok:
                        outs.append(None)
                        continue
                    _shape_ok(r, sub, sg, N_LONG, st['dt'])
                    try:
                        full = np.array(sg.values, copy=True)
                        got = full[mid]
                    except Exception:
                        full = got = None
                    outs.append(full)
                    r.expect_close('filter.sequence-gain', sub, got, g * x[mid], rtol=0.0, atol=GAIN_TOL,
                                   what='call %d of the sequence: output on the middle third vs |H|^2=%.6g (the setting of this '
                                        'call) times input' % (pos + 1, g))
                # the two designs differ, as digital filters, at the first record's sinusoid (same bin k: same fraction of Nyquist)
                if abs(gs[0] - g2(b, int(round(rel * A['fref'] * N_LONG * A['dt'])))) > 1e-3:
                    r.nontrivial += 1
                    r.cls('seq-gains-differ')
                r.cls('seq-aba')
                if outs[0] is not None and outs[2] is not None:
                    sub = dict(base, sequence=[S[j]['name'] for j in seq], setting=A['name'], rel=rel)
                    r.expect('filter.history-independent', sub, bits_equal(outs[0], outs[2]),
                             'the same call on the same record gives a different result after a call with the other setting',
                             observed=outs[2], expected=outs[0])
            if A['dt'] != B['dt']:
                continue
            for i, j in ((a, b), (b, a)):
                for rel in SEQ_REL:
                    st = S[i]
                    k = int(round(rel * st['fref'] * N_LONG * st['dt']))
                    x = sinus(k)
                    g = g2(i, k) * g2(j, k)
                    sub = dict(base, same_object=[S[i]['name'], S[j]['name']], k=k, phase=1,
                               calls=[[S[q]['cut'], S[q]['container'], S[q]['dt']] for q in (i, j)])
                    r.states += 1
                    r.transitions += 1
                    r.cls('seq-same-object')
                    ok, sg = r.call('filter.composition-gain', sub, lambda: apply(apply(eqsig.Signal(x, st['dt']), i), j))
                    if not ok:
                        continue
                    _shape_ok(r, sub, sg, N_LONG, st['dt'])
                    try:
                        got = np.array(sg.values, copy=True)[mid]
                    except Exception:
                        got = None
                    r.expect_close('filter.composition-gain', sub, got, g * x[mid], rtol=0.0, atol=GAIN_TOL,
                                   what='two filters applied to one object: output on the middle third vs the product of the two '
                                        'analytic gains %.6g times input' % g)
    for st, o, sn in zip(S, cuts, snaps):
        r.expect('filter.cutoff-unchanged', dict(base, setting=st['name']), _snap_cut(o) == sn,
                 "butter_pass modified the caller's cut-off container: now %r" % (o,))
    return r


# ---------------------------------------------------------------------------------------------
# cut-offs next to the ends of the admissible interval
# ---------------------------------------------------------------------------------------------
def edge_setting(kind, e, dt):
    """(cut-offs, container, ends next to which sinusoids are placed) - cut-offs as decimals of at most 9 digits"""
    nyq = 0.5 / dt
    lo, hi, inner = round(e * nyq, 9), round((1.0 - e) * nyq, 9), round(0.2 * nyq, 9)
    return {'low, cut-off near 0': ([None, lo], 'tuple', ('zero',)),
            'high, cut-off near 0': ([lo, None], 'list', ('zero',)),
            'band, lower cut-off near 0': ([lo, inner], 'ndarray', ('zero',)),
            'low, cut-off near Nyquist': ([None, hi], 'list', ('nyquist',)),
            'high, cut-off near Nyquist': ([hi, None], 'tuple', ('nyquist',)),
            'band, upper cut-off near Nyquist': ([inner, hi], 'list', ('nyquist',)),
            'band, cut-offs near 0 and near Nyquist': ([lo, hi], 'tuple', ('zero', 'nyquist'))}[kind]


def edge_tol(kind, e, order):
    """Rounding noise of scipy's transfer-function form with a cluster of `order` poles at distance ~e from z = 1 / z = -1, as
    measured on the unchanged tree (worst case over the menu, all within a factor ~20 of the formula); tolerance = 100 x."""
    noise = 3e-16 * e ** (-order) if kind == 'band, lower cut-off near 0' else 4e-15 * e ** (1 - order)
    return max(GAIN_TOL, 100.0 * noise)


def run_edge(c):
    """"Scaled by |H(f)|^2 of the requested order and cut-offs" for the smallest and the largest admissible cut-offs: the gain
    is the one of the cut-off actually passed (0.992 ... 0.999 of the Nyquist frequency is not 0.99 of it, 0.001 is not 0.01),
    examined where that matters - sinusoids on both sides of the extreme cut-off, within a factor two of its distance from the
    end of the interval - plus one sinusoid in the middle of the spectrum."""
    r = Res()
    (e, dt), kind, order = c['edge'], c['setting'], c['order']
    n = int(round(65.536 / e))
    cut, cont, ends = edge_setting(kind, e, dt)
    r.cls('order-%d' % order)
    r.cls('edge-cutoffs-near-both-ends' if len(ends) == 2 else 'edge-cutoff-near-zero' if ends[0] == 'zero' else 'edge-cutoff-near-nyquist')
    tol = edge_tol(kind, e, order)
    if tol > GAIN_TOL:
        r.cls('edge-tol-widened')
    obj = make_cut(cut, cont)
    snap = _snap_cut(obj)
    ks = [n // 4]
    for end in ends:
        ks += [m if end == 'zero' else n // 2 - m for m in EDGE_BINS]
    mid = slice(n // 3, 2 * n // 3)
    base = {'edge': e, 'dt': dt, 'N': n, 'setting': kind, 'cut': cut, 'container': cont, 'order': order}
    for k in sorted(ks):
        x = _sinus(n, k, EDGE_PHASE)
        g = gain2(k / (n * dt), dt, order, cut[0], cut[1])
        if 1e-3 < g < 1 - 1e-3:
            r.nontrivial += 1
        r.cls('edge-gain-pass' if g > 0.9 else ('edge-gain-stop' if g < 0.1 else 'edge-gain-transition'))
        for gibbs in GIBBS:
            sub = dict(base, gibbs=gibbs, k=k, phase=EDGE_PHASE)
            r.states += 1
            r.cls('gibbs-%s' % gibbs)

            def go():
                sg = eqsig.Signal(x, dt)
                sg.butter_pass(obj, filter_order=order, remove_gibbs=gibbs)
                return sg
            ok, sg = r.call('filter.gain-phase', sub, go)
            if not ok:
                continue
            _shape_ok(r, sub, sg, n, dt)
            try:
                got = np.array(sg.values, copy=True)[mid]
            except Exception:
                got = None
            r.expect_close('filter.gain-phase', sub, got, g * x[mid], rtol=0.0, atol=tol,
                           what='output on the middle third vs |H|^2=%.6g (cut-offs %r, Nyquist %g) times input' % (g, cut, 0.5 / dt))
    r.expect('filter.cutoff-unchanged', base, _snap_cut(obj) == snap, "butter_pass modified the caller's cut-off container: now %r" % (obj,))
    return r


# ---------------------------------------------------------------------------------------------
# word cases
# ---------------------------------------------------------------------------------------------
def affine(v, mult, off):
    return Fraction(v) * Fraction(mult) + Fraction(off)


def build_arr(vals_fr, typ):
    """container of the exact rationals vals_fr (all exactly representable in the requested type)"""
    if typ in (list, tuple):
        return typ(int(v) for v in vals_fr)
    if typ in (float, np.float32):
        a = np.array([float(v) for v in vals_fr], dtype=typ)
    else:
        a = np.array([int(v) for v in vals_fr], dtype=typ)
    assert all(Fraction(float(x)) == v for x, v in zip(a.tolist(), vals_fr)), 'sample not representable'
    return a


def _detrend_entry(entry, arr, k):
    if entry.startswith('object'):
        s = eqsig.Signal(arr, WORD_DT)
        s.remove_poly(k)
        return s.values
    return generic.remove_poly(arr, k)


def check_detrend(r, w, tag=None, mult=1, off=0, typ=float):
    """tag None: the historical float64 / int64 records; otherwise one container / scaling variant of the word (sub gets 'values')."""
    n = len(w)
    yf = [affine(v, mult, off) for v in w]
    unit = float(mult)
    peak = float(max(abs(v) for v in yf))
    a = np.array([float(v) for v in yf], dtype=float)
    xg = np.arange(n) / float(n - 1)
    plain = tag is None
    exact_tol = 1e-8 * peak if plain else 1e-9 * peak
    for k in DEGREES:
        if k > n - 2:
            continue
        fit = best_fit(yf, k)
        want = fl([y - p for y, p in zip(yf, fit)])
        if plain:
            r.cls('detrend-deg-%d' % k)
            if any(p != 0 for p in fit):
                r.cls('detrend-changed')
            if any(y != p for y, p in zip(yf, fit)):
                r.cls('detrend-residual-nonzero')
        for entry in (('object', 'array', 'object-int', 'array-int') if plain else ('object', 'array')):
            sub = {'w': w, 'k': k, 'entry': entry}
            if not plain:
                sub['values'] = tag
            r.states += 1
            if plain:
                arr = np.array(w, dtype=np.int64) if entry.endswith('int') else a.copy()
            else:
                arr = build_arr(yf, typ)
            snap = snapshot(arr)
            ok, res = r.call('detrend.exact', sub, _detrend_entry, entry, arr, k)
            r.expect('detrend.argument-unchanged', sub, snapshot(arr) == snap, "the caller's record container was modified",
                     observed=arr, expected=[float(v) for v in yf])
            if not ok:
                continue
            if plain:
                r.cls('detrend-object' if entry.startswith('object') else 'detrend-array')
            # the property determines the result uniquely: record minus its exact best-fit polynomial
            r.expect_close('detrend.exact', sub, res, want, rtol=0.0, atol=exact_tol,
                           what='result vs record minus exact rational best-fit polynomial')
            if entry.endswith('int') or typ is not float:
                continue
            rf = as_fracs(res)
            if rf is None or len(rf) != n:
                r.fail('detrend.subtracted-polynomial', sub, 'result is not a finite series of the record length', observed=res)
                continue
            # (1) what was subtracted is a polynomial of degree <= k: (k+1)-th finite differences vanish
            d = [y - v for y, v in zip(yf, rf)]
            for _ in range(k + 1):
                d = [d[i + 1] - d[i] for i in range(len(d) - 1)]
            r.expect_close('detrend.subtracted-polynomial', sub, fl(d), np.zeros(len(d)), rtol=0.0, atol=1e-7 * peak,
                           what='finite differences of order %d of (record - result)' % (k + 1))
            # (2) best-fit degree-k polynomial of the residual is zero (own exact least squares on the float result)
            r.expect_close('detrend.residual-fit-zero', sub, fl(best_fit(rf, k)), np.zeros(n), rtol=0.0, atol=exact_tol,
                           what='exact best-fit degree-%d polynomial of the result' % k)
            # (3) idempotent (the array-level result is overwritten in place after a private copy was taken: it must not
            #     be a view of anything the function keeps or was given)
            r.transitions += 1
            keep = np.array(res, dtype=float)
            if entry == 'array':
                try:
                    res[...] = 77.0
                except Exception:
                    pass
                r.expect('detrend.argument-unchanged', sub, snapshot(arr) == snap,
                         'overwriting the returned array changed the record that was passed in', observed=arr)
            res = keep
            ok, res2 = r.call('detrend.idempotent', sub, _detrend_entry, entry, np.array(res, dtype=float), k)
            if ok:
                r.expect_close('detrend.idempotent', sub, res2, res, rtol=0.0, atol=exact_tol,
                               what='second application vs first')
            # (4) adding a polynomial of degree <= k beforehand changes nothing
            polys = [('3x^%d' % j, 3.0 * unit * xg ** j) for j in range(k + 1)]
            polys.append(('combo', sum(COMBO[j] * unit * xg ** j for j in range(k + 1))))
            for name, q in polys:
                s2 = dict(sub, added=name)
                r.states += 1
                r.transitions += 1
                y2 = a + q
                ok, res3 = r.call('detrend.poly-invariance', s2, _detrend_entry, entry, y2, k)
                if ok:
                    r.expect_close('detrend.poly-invariance', s2, res3, res, rtol=0.0,
                                   atol=1e-7 * float(np.max(np.abs(y2))) + 1e-7 * peak,
                                   what='detrend(record + polynomial) vs detrend(record)')
            if plain and n <= VARIANT_MAX_LEN:
                # (e) A-B-A: the same call before and after a call on another record of the same length with the same first
                #     and last sample
                if n >= 3:
                    wb = a.copy()
                    wb[n // 2] += 1.0
                    r.transitions += 2
                    r.cls('aba-detrend')
                    r.call('detrend.repeatable', dict(sub, between=wb), _detrend_entry, entry, wb, k)
                    ok, res4 = r.call('detrend.repeatable', dict(sub, between=wb), _detrend_entry, entry, a.copy(), k)
                    if ok:
                        r.expect('detrend.repeatable', dict(sub, between=wb), bits_equal(np.asarray(res4), keep),
                                 'the same call gives a different result after a call on another record', observed=res4,
                                 expected=keep)
                # (c) object with a history
                if entry == 'object':
                    for host in ('Signal', 'AccSignal'):
                        s2 = dict(sub, host=host, history='other-record-detrended-and-read')
                        r.states += 1
                        r.cls('history-detrend')

                        def hist():
                            sg = _history_signal(getattr(eqsig, host), list(w) + [1, -1], a, WORD_DT, lambda o: o.remove_poly(k))
                            sg.remove_poly(k)
                            return sg.values
                        ok, res5 = r.call('detrend.history-independent', s2, hist)
                        if ok:
                            r.expect_close('detrend.history-independent', s2, res5, want, rtol=0.0, atol=exact_tol,
                                           what='remove_poly on an object that held another record before')


def _series(n):
    return [Fraction((-1) ** i * (i + 1), 2) for i in range(n)]


def check_add(r, w):
    n = len(w)
    sf0 = _series(n)
    SPE = eq_exceptions.SignalProcessingError
    variants = [('float', 1, 0, float), ('int', 1, 0, np.int64)]
    if n <= VARIANT_MAX_LEN:
        variants += [v for v in WORD_VARIANTS]
    for host in ('Signal', 'AccSignal'):
        cls = getattr(eqsig, host)
        for dtype, mult, off, typ in variants:
            plain = dtype in ('float', 'int')
            unit = Fraction(mult)
            yf = [affine(v, mult, off) for v in w]
            # series and constants follow the multiplier of the variant (so that every term matters at every scale)
            sf = [v * unit for v in sf0] if typ is float else sf0
            sfl = [float(v) for v in sf]
            peak = float(max(abs(v) for v in yf)) + float(max(abs(v) for v in sf)) + 2.0 * float(unit if typ is float else 1)

            def mk():
                return cls(build_arr(yf, typ), WORD_DT)
            base = {'w': w, 'host': host, 'dtype': dtype}
            if not plain:
                r.cls('add-variant')

            def run(op, fn, want, claim):
                sub = dict(base, op=op)
                r.states += 1
                s = mk()
                ok, _ = r.call(claim, sub, fn, s)
                if ok:
                    r.expect_close(claim, sub, s.values, fl(want), rtol=0.0, atol=1e-12 * peak, what='element-wise sum')
                    r.expect(claim, sub, s.dt == WORD_DT and s.npts == n, 'dt / npts changed', observed=(s.dt, s.npts))

            for cst0 in ADD_CONSTANTS:
                if typ is np.uint8 and isinstance(cst0, int) and cst0 < 0:
                    continue        # a negative python int does not fit the unsigned type (numpy refuses the sum)
                cst = float(cst0 * unit) if typ is float and not plain else cst0
                r.cls('add-constant')
                run('add_constant(%r)' % (cst,), lambda s: s.add_constant(cst), [y + Fraction(cst) for y in yf], 'add.constant')
            # the added series / signal: ONE object per variant, handed to every call that needs it and snapshot-checked
            ser_nd = np.array(sfl)
            ser_list = list(sfl)
            ser_tuple = tuple(sfl)
            sig_other = {o: getattr(eqsig, o)(np.array(sfl), WORD_DT) for o in ('Signal', 'AccSignal')}
            snaps = [(x, snapshot(x)) for x in (ser_nd, ser_list, ser_tuple)]
            r.cls('add-series-ndarray')
            run('add_series(ndarray)', lambda s: s.add_series(ser_nd), [y + v for y, v in zip(yf, sf)], 'add.series')
            r.cls('add-series-list')
            run('add_series(list)', lambda s: s.add_series(ser_list), [y + v for y, v in zip(yf, sf)], 'add.series')
            small = n <= VARIANT_MAX_LEN
            if small:
                r.cls('add-series-tuple')
                run('add_series(tuple)', lambda s: s.add_series(ser_tuple), [y + v for y, v in zip(yf, sf)], 'add.series')
            # integer-typed series (whole numbers): int64 and a narrow type.  Not onto the unsigned record: record + negative
            # integers does not fit its type (numpy semantics), it only gets the float series
            si = [Fraction((-1) ** i * (i + 1)) for i in range(n)]
            if small and (plain or typ is not float) and typ is not np.uint8:
                for nm, st in (('int64', np.int64), ('int8', np.int8)):
                    r.cls('add-series-int')
                    ser_i = np.array([int(v) for v in si], dtype=st)
                    snaps.append((ser_i, snapshot(ser_i)))
                    run('add_series(ndarray %s)' % nm, lambda s: s.add_series(ser_i), [y + v for y, v in zip(yf, si)],
                        'add.series')
            for other in ('Signal', 'AccSignal'):
                r.cls('add-signal')
                run('add_signal(%s)' % other, lambda s: s.add_signal(sig_other[other]),
                    [y + v for y, v in zip(yf, sf)], 'add.signal')
                # equal time steps written differently are equal
                if plain and small:
                    run('add_signal(%s, dt as numpy.float64)' % other,
                        lambda s: s.add_signal(getattr(eqsig, other)(np.array(sfl), np.float64(WORD_DT))),
                        [y + v for y, v in zip(yf, sf)], 'add.signal')
            for x, sn in snaps:
                r.expect('add.argument-unchanged', dict(base, argument=type(x).__name__), snapshot(x) == sn,
                         'the series that was added was modified', observed=x)
            for o, so in sig_other.items():
                r.expect('add.argument-unchanged', dict(base, argument=o),
                         bits_equal(np.asarray(so.values), np.array(sfl)) and so.dt == WORD_DT and so.npts == n,
                         'the signal that was added was modified', observed=so.values, expected=sfl)

            def chain(s):
                s.add_constant(1.5)
                s.add_series(list(sfl))
                s.add_signal(eqsig.Signal(np.array(sfl), WORD_DT))
            r.cls('add-chain')
            r.transitions += 3
            run('add_constant(1.5);add_series(list);add_signal(Signal)', chain,
                [y + Fraction(3, 2) + 2 * v for y, v in zip(yf, sf)], 'add.chain')
            if not plain:
                continue

            if n <= VARIANT_MAX_LEN:
                # (c) object with a history: held another record (one sample longer), added to and read, then reset
                def hchain(_):
                    sg = _history_signal(cls, list(w) + [2], build_arr(yf, float if dtype == 'float' else np.int64), WORD_DT,
                                         lambda o: (o.add_constant(1.5), o.add_series([1.0] * (n + 1))))
                    chain(sg)
                    return sg
                sub = dict(base, op='chain', history='other-record-added-to-and-read')
                r.states += 1
                r.cls('history-add')
                ok, sg = r.call('add.history-independent', sub, hchain, None)
                if ok:
                    r.expect_close('add.history-independent', sub, sg.values,
                                   fl([y + Fraction(3, 2) + 2 * v for y, v in zip(yf, sf)]), rtol=0.0, atol=1e-12 * peak)
                    r.expect('add.history-independent', sub, sg.npts == n and sg.dt == WORD_DT, 'npts / dt wrong',
                             observed=(sg.npts, sg.dt))

            long_ = sfl + [1.0]
            short_ = sfl[:-1]
            rejections = [
                ('reject-length', 'add_series(ndarray len+1)', lambda s: s.add_series(np.array(long_))),
                ('reject-length', 'add_series(list len-1)', lambda s: s.add_series(list(short_))),
                ('reject-length', 'add_signal(Signal len+1, same dt)', lambda s: s.add_signal(eqsig.Signal(np.array(long_), WORD_DT))),
                ('reject-dt', 'add_signal(Signal same len, dt*2)', lambda s: s.add_signal(eqsig.Signal(np.array(sfl), 2 * WORD_DT))),
                ('reject-dt', 'add_signal(AccSignal same len, dt/2)', lambda s: s.add_signal(eqsig.AccSignal(np.array(sfl), WORD_DT / 2))),
                ('reject-non-signal', 'add_signal(ndarray)', lambda s: s.add_signal(np.array(sfl))),
                ('reject-non-signal', 'add_signal(list)', lambda s: s.add_signal(list(sfl))),
                ('reject-non-signal', 'add_signal(None)', lambda s: s.add_signal(None)),
            ]
            mks = [mk] * len(rejections)
            if n <= VARIANT_MAX_LEN:
                # time steps that differ by one part in 1e7 ... a factor of six, at fine and coarse sampling, either one being
                # the receiving signal's: all mismatched
                for d1, d2 in DT_PAIRS:
                    for da, db in ((d1, d2), (d2, d1)):
                        rejections.append(('reject-dt', 'signal dt=%r .add_signal(Signal same len, dt=%r)' % (da, db),
                                           lambda s, db=db: s.add_signal(eqsig.Signal(np.array(sfl), db))))
                        mks.append(lambda da=da: cls(build_arr(yf, typ), da))
                        r.cls('reject-dt-close' if abs(da - db) <= 2e-6 * da else 'reject-dt-coarse' if min(da, db) >= 0.25
                              else 'reject-dt-menu')
            for (kcls, op, fn), mk1 in zip(rejections, mks):
                sub = dict(base, op=op)
                r.states += 1
                r.evals += 1
                r.cls(kcls)
                s = mk1()
                before = np.array(s.values, copy=True)
                try:
                    fn(s)
                    r.expect('add.' + kcls, sub, False, 'accepted instead of raising SignalProcessingError', observed=s.values)
                except SPE:
                    r.expect('add.' + kcls, sub, bits_equal(np.asarray(s.values), before) and s.npts == n,
                             'rejected, but the signal was modified', observed=s.values, expected=before)
                except Exception as e:  # noqa
                    r.expect('add.' + kcls, sub, False, 'raises %s instead of SignalProcessingError: %s' % (type(e).__name__, str(e)[:150]))


def check_running_average(r, w):
    n = len(w)
    variants = [('float', 1, 0, float), ('int', 1, 0, np.int64)]
    if n <= VARIANT_MAX_LEN:
        variants += [v for v in WORD_VARIANTS]
    base_means = {}        # width -> exact window means of the integer word (the mean commutes with w -> w*mult+offset)
    for width in WIDTHS:
        h = width // 2
        base_means[width] = [Fraction(sum(w[max(0, i - h):min(n - 1, i + h) + 1]), min(n - 1, i + h) - max(0, i - h) + 1)
                             for i in range(n)]
    for dtype, mult, off, typ in variants:
        plain = dtype in ('float', 'int')
        yf = [affine(v, mult, off) for v in w]
        peak = float(max(abs(v) for v in yf))
        arr0 = build_arr(yf, typ)
        for width in WIDTHS:
            if not plain and width > 2 * n + 1:
                break           # variants: from width 2n+1 on every window covers the whole record (same result as 2n+1)
            h = width // 2
            sub = {'w': w, 'width': width, 'dtype': dtype}
            r.states += 1
            if plain:
                r.cls('runavg-' + dtype)
            else:
                r.cls('runavg-variant')
            want = base_means[width] if (mult == 1 and off == 0) else [m * Fraction(mult) + off for m in base_means[width]]
            for i in range(n):
                if plain:
                    if i - h < 0:
                        r.cls('runavg-clipped-left')
                    if i + h > n - 1:
                        r.cls('runavg-clipped-right')
                    if i - h >= 0 and i + h <= n - 1:
                        r.cls('runavg-unclipped')
            if plain:
                if h >= n - 1:
                    r.cls('runavg-covers-all')
                if any(x != v for x, v in zip(want, yf)):
                    r.cls('runavg-changes-record')
            s = eqsig.Signal(arr0, WORD_DT)          # the constructor copies; arr0 is checked after the loop
            ok, _ = r.call('running_average.window-mean', sub, s.running_average, width)
            if not ok:
                continue
            r.expect_close('running_average.window-mean', sub, s.values, fl(want), rtol=0.0, atol=1e-12 * peak,
                           what='each sample vs mean of the ORIGINAL samples within %d positions' % h)
            r.expect('running_average.window-mean', sub, s.npts == n and s.dt == WORD_DT, 'npts / dt changed',
                     observed=(s.npts, s.dt))
            if width == min(WIDTHS[-1], WIDTHS[-1] if plain else 2 * n + 1):
                r.expect('running_average.argument-unchanged', {'w': w, 'dtype': dtype},
                         snapshot(arr0) == snapshot(build_arr(yf, typ)), 'the container the signals were built from was modified',
                         observed=arr0)
            if dtype == 'float' and n <= VARIANT_MAX_LEN and width <= 5:
                first = np.array(s.values, dtype=float)
                # (c) object with a history (held a longer record, averaged and read) and, on the way, (e) A-B-A: the other
                #     record is averaged between the two runs on this one
                for host in ('Signal', 'AccSignal'):
                    s2 = dict(sub, host=host, history='other-record-averaged-and-read')
                    r.states += 1
                    r.transitions += 1
                    r.cls('history-runavg')

                    def hist():
                        sg = _history_signal(getattr(eqsig, host), list(w) + [2, -1], [float(v) for v in yf], WORD_DT,
                                             lambda o: o.running_average(width))
                        sg.running_average(width)
                        return sg
                    ok, sg = r.call('running_average.history-independent', s2, hist)
                    if ok:
                        r.expect_close('running_average.history-independent', s2, sg.values, fl(want), rtol=0.0,
                                       atol=1e-12 * peak)
                        if host == 'Signal':
                            r.expect('running_average.history-independent', s2, bits_equal(np.asarray(sg.values), first),
                                     'differs from the result on a fresh object', observed=sg.values, expected=first)


def run_word(c):
    r = Res()
    w = list(c['w'])
    r.nontrivial += 1
    check_detrend(r, w)
    if len(w) <= VARIANT_MAX_LEN:
        for tag, mult, off, typ in WORD_VARIANTS:
            r.cls('detrend-variant')
            check_detrend(r, w, tag, mult, off, typ)
    check_add(r, w)
    check_running_average(r, w)
    return r


HIST_SUBJECTS = {
    'remove_poly(0)': lambda o: o.remove_poly(0), 'remove_poly(1)': lambda o: o.remove_poly(1), 'remove_poly(2)': lambda o: o.remove_poly(2),
    'remove_poly(4)': lambda o: o.remove_poly(4),
    'running_average(3)': lambda o: o.running_average(3), 'running_average(8)': lambda o: o.running_average(8),
    'butter_pass((2, 20), order 2)': lambda o: o.butter_pass((2.0, 20.0), filter_order=2),
    'butter_pass([None, 15], gibbs mid)': lambda o: o.butter_pass([None, 15.0], filter_order=3, remove_gibbs='mid'),
    'add_constant(0.7)': lambda o: o.add_constant(0.7),
    'add_series': lambda o: o.add_series(np.cos(np.arange(o.npts) * 0.3)),
}


def _hist_record(n=48):
    i = np.arange(n)
    return np.sin(i * 0.41) + 0.4 * np.cos(i * 1.3) + 0.02 * i - 0.0007 * i * i + 0.3


def run_hist(c):
    """The operation is a function of the record it finds (and its arguments): applied to an object that went through the same operation
    before and then through any public edit, it must leave what it leaves on a fresh object holding the same record.  For the
    detrending additionally the statement itself: the best-fit polynomial of the result is zero."""
    from . import c04
    r = Res()
    cls = getattr(eqsig, c['cls'])
    sname = c['subject']
    subject = HIST_SUBJECTS[sname]
    ops, kind = c04.build_ops(c['cls'])
    edits = [(n_, f_) for n_, f_ in ops.items() if kind[n_][0] == 'mut']
    rec = _hist_record()
    r.nontrivial += 1
    for ename, edit in edits:
        sub = {'cls': c['cls'], 'operation': sname, 'history': [sname, ename, sname]}
        r.states += 1
        try:
            o = cls(rec.copy(), 0.01)
            o._mc_n0 = len(rec)
            subject(o)
        except Exception as e:
            r.fail('history.call', sub, 'first application raises %s: %s' % (type(e).__name__, str(e)[:150]))
            continue
        try:
            edit(o)
        except Exception:
            r.disabled['history: edit raises (%s)' % ename] += 1
        try:
            before = np.array(o.values, dtype=float)
            twin = cls(before.copy(), 0.01)
        except Exception:
            continue
        ok, _ = r.call('history.call', sub, subject, o)
        ok2, _ = r.call('history.call', dict(sub, on='fresh twin'), subject, twin)
        if not (ok and ok2):
            continue
        r.transitions += 1
        r.cls('operation-after-history')
        got = np.asarray(o.values, dtype=float)
        want = np.asarray(twin.values, dtype=float)
        scale = max(float(np.max(np.abs(before))), 1e-300)
        r.expect_close('history.same-as-fresh', sub, got, want, rtol=0.0, atol=1e-9 * scale,
                       what='record left by the operation on an object with a history vs on a fresh object holding the same record')
        if sname.startswith('remove_poly') and got.shape == before.shape and len(got) > 6:
            k = int(sname[12:-1])
            t = np.linspace(-1, 1, len(got))
            V = np.polynomial.legendre.legvander(t, k)
            coef, *_ = np.linalg.lstsq(V, got, rcond=None)
            fit = V @ coef
            r.expect('history.detrended', sub, float(np.max(np.abs(fit))) <= 1e-7 * scale,
                     'after remove_poly(%d) on an object with a history the best-fit polynomial of degree %d of the record is not zero '
                     '(max |fit| = %.3g)' % (k, k, float(np.max(np.abs(fit)))), observed=float(np.max(np.abs(fit))), expected=0.0)
    return r


def run_case(c):
    if c['kind'] == 'hist':
        return run_hist(c)
    if c['kind'] == 'gain':
        return run_gain(c)
    if c['kind'] == 'lin':
        return run_lin(c)
    if c['kind'] == 'len':
        return run_len(c)
    if c['kind'] == 'seq':
        return run_seq(c)
    if c['kind'] == 'edge':
        return run_edge(c)
    return run_word(c)


def snippet(case, v):
    sub = v.get('sub') or {}
    head = "import numpy as np, eqsig\nfrom eqsig.fns import generic\nsub = %r\n" % (sub,)
    if case.get('kind') == 'hist':
        return head + "# see run_hist in mcheck/props/c17.py: cls(record, 0.01); operation; history[1] (C04 alphabet); operation again vs the operation on a fresh object with the same record\n"
    if case.get('kind') in ('seq', 'edge'):
        return head + (
            "mk = lambda cut, cont: tuple(cut) if cont == 'tuple' else list(cut) if cont == 'list' else np.array(cut, float)\n"
            "N = sub['N']; kw = dict(filter_order=sub['order'], remove_gibbs=sub.get('gibbs'))\n"
            "x = lambda k: np.sin(np.arange(N) * (2 * np.pi * k / N) + 1)\n"
            "if 'same_object' in sub:      # two filters on one object: expected gain = product of the two analytic gains\n"
            "    s = eqsig.Signal(x(sub['k']), sub['calls'][0][2])\n"
            "    for cut, cont, dt in sub['calls']: s.butter_pass(mk(cut, cont), **kw)\n"
            "    print(s.npts, s.dt, (s.values / x(sub['k']))[N // 3:N // 3 + 4])\n"
            "elif 'calls' in sub:          # A, B, A on fresh objects; sinusoid of each call: bin k (rel x its own cut-off), on its own dt\n"
            "    for cut, cont, dt, k in sub['calls']:\n"
            "        s = eqsig.Signal(x(k), dt); s.butter_pass(mk(cut, cont), **kw)\n"
            "        print(cut, dt, k, s.npts, s.dt, 'gain on the middle third:', (s.values / x(k))[N // 3:N // 3 + 4])\n"
            "else:                         # cut-off next to 0 / Nyquist\n"
            "    s = eqsig.Signal(x(sub['k']), sub['dt']); s.butter_pass(mk(sub['cut'], sub['container']), **kw)\n"
            "    print(s.npts, s.dt, 'gain on the middle third:', (s.values / x(sub['k']))[N // 3:N // 3 + 4])\n")
    if case.get('kind') in ('gain', 'lin', 'len'):
        return head + (
            "cut = sub['cut']; cont = sub['container']\n"
            "cut = tuple(cut) if cont == 'tuple' else list(cut) if cont == 'list' else np.array(cut, float)\n"
            "N = sub['N']; dt = 0.01; t = np.arange(N) * dt\n"
            "if 'k' in sub: x = np.sin(2 * np.pi * sub['k'] / (N * dt) * t + sub['phase'])\n"
            "elif 'record' in sub:   # length sweep: x_i = ((7i^2+3i) mod 41) - 20, y_i = (13i mod 17) - 8; see sub['record']\n"
            "    i = np.arange(N); x = ((7 * i * i + 3 * i) % 41 - 20).astype(float); y = ((13 * i) % 17 - 8).astype(float)\n"
            "    x = {'y': y, 'x+2y': x + 2 * y, 'x*2^-30': x * 2.0 ** -30, 'x*2^20': x * 2.0 ** 20, 'i64': x.astype(np.int64),\n"
            "         'i16 (x*1000)': (1000 * x).astype(np.int16), 'u8 ((x+20)*6)': ((x + 20) * 6).astype(np.uint8)}.get(sub['record'], x)\n"
            "else: x = np.zeros(N); x[sub.get('i', 0)] += 1; x[sub.get('j', sub.get('i', 0))] += 2 * ('j' in sub)\n"
            "s = eqsig.Signal(x, dt)\n"
            "kw = {} if sub.get('order_arg') else {'filter_order': sub['order']}\n"
            "if not sub.get('gibbs_arg'): kw['remove_gibbs'] = sub['gibbs']\n"
            "if 'gibbs_extra' in sub: kw['gibbs_extra'] = sub['gibbs_extra']\n"
            "if sub.get('order_arg') and sub.get('when') != 'first':   # preceded by an explicit call on another record\n"
            "    eqsig.Signal(x, dt).butter_pass(cut, filter_order=sub['order'], remove_gibbs=sub['gibbs'])\n"
            "s.butter_pass(cut, **kw)\n"
            "print(len(s.values), s.dt, s.values[N // 3:N // 3 + 5], x[N // 3:N // 3 + 5])\n")
    if v.get('claim', '').startswith('running_average'):
        return head + ("s = eqsig.Signal(np.array(sub['w'], float if sub['dtype'] == 'float' else int), 0.1)\n"
                       "s.running_average(sub['width']); print(s.values)\n"
                       "h = sub['width'] // 2; w = sub['w']\n"
                       "print([np.mean(w[max(0, i - h):i + h + 1]) for i in range(len(w))])\n")
    if v.get('claim', '').startswith('detrend'):
        return head + ("a = np.array(sub['w'], float)\n"
                       "s = eqsig.Signal(a, 0.1); s.remove_poly(sub['k']); print(s.values)\n"
                       "print(generic.remove_poly(a, sub['k']))\n")
    return head + ("s = getattr(eqsig, sub.get('host', 'Signal'))(np.array(sub['w'], float if sub.get('dtype') != 'int' else int), 0.1)\n"
                   "print(sub.get('op')); # apply the operation named in sub['op'] to s, then print(s.values)\n")
