"""C05 - signal objects own their data; analysis functions do not mutate their inputs.

Part A (engine S): caller container {float64 ndarray, int64 ndarray, python list} x entry
{constructor, reset_values} x {Signal, AccSignal} x every mutator sequence up to the depth
bound (mutator alphabet of C04, plus Cluster.time_match / Cluster.same_start on member signals).
After every step: the caller's container is byte-identical to its snapshot, values is a numeric
ndarray whose length is npts, time == dt*arange(npts); and vice versa: overwriting the caller's
container changes nothing the object reports.

Part B (engine T): explicit registry of public array- or signal-taking analysis functions x
every record over {-1,0,2} up to the length bound (tiled to the function's minimum length) x
{float64, int64, list}: byte snapshot of every argument before/after the call, and a second
call must return the same result bit for bit.
"""
import collections
import copy
import inspect

import numpy as np

from ..target import (eqsig, sdof, im, surface, stockwell, displacements, average, frequency, generic,
                      peaks_and_crossings as pc, time_shift, time_step, multiple, design_spectra)
from ..result import Res
from ..compare import snapshot, bits_equal, words, close
from .. import osm
from . import c04

CASE_TIMEOUT = 600
DT = 0.01
CONTAINERS = ('f64', 'i64', 'list')
P = np.array([0.3, 0.05])
# auxiliary array arguments (periods, shifts, travel times, query points ...): deliberately unsorted where the
# function allows it, shared by all probes, snapshot-checked around every call and restored if a call modified them
AUX0 = {'P': [0.3, 0.05], 'P0': [0.0, 0.3, 0.05], 'P3': [0.5, 0.1, 0.3], 'P4': [0.05, 0.1, 0.4, 0.8], 'SF4': [0.5, 0.9, 3.0, 8.0], 'SH': [2, -1, 0], 'SH2': [2, 0], 'SH3': [2, 1], 'TT': [0.13, 0.05], 'TS': [0.2, 0.1],
        'XQ': [1.5, 0.5], 'SF': [1.0, 0.5], 'NC': [5.0], 'B': [0.34, 0.1], 'CUTS': [0.5, 2.0], 'UR': [1., .8], 'DR': [.5, 1.], 'TRIM_TT': [0.2, 0.1]}
# a second menu: every array of length >= 3 keeps its length and its end values but changes inside (an answer must not depend on
# what an earlier call with a look-alike argument computed)
AUX_B = {'P3': [0.5, 0.2, 0.3], 'P4': [0.05, 0.2, 0.3, 0.8], 'SF4': [0.5, 1.7, 5.0, 8.0], 'SH': [2, 1, 0]}
AUX = {}


def reset_aux():
    for k, v in AUX0.items():
        AUX[k] = np.array(v, dtype=(int if k.startswith('SH') else float))
    globals()['P'] = AUX['P']


reset_aux()


def set_aux(variant):
    """A: the standard menu; B: same lengths and end values, different inside; C: one element shorter (another cache key)"""
    for k, v in AUX_B.items():
        vals = v if variant == 'B' else AUX0[k][:-1] if variant == 'C' else AUX0[k]
        AUX[k] = np.array(vals, dtype=(int if k.startswith('SH') else float))


def aux_snapshot():
    return tuple(snapshot(AUX[k]) for k in sorted(AUX))


def container(vals, kind):
    if kind == 'f64':
        return np.array(vals, dtype=float)
    if kind == 'i64':
        return np.array(np.round(vals), dtype=np.int64)
    return [float(v) for v in vals]


# ------------------------------------------------------------------ part A
class Box(object):
    """the object under test together with everything the caller still holds"""
    pass


def seed_vals(n=40):
    i = np.arange(n)
    return np.round(4 * (np.sin(i * 0.37) + 0.3 * np.cos(i * 1.1))) + (i % 3 == 0) * 0.5


def make_box(cls, kind, entry):
    b = Box()
    vals = seed_vals()
    b.cont = container(vals, kind)
    ctor = eqsig.AccSignal if cls == 'AccSignal' else eqsig.Signal
    if entry == 'constructor':
        b.obj = ctor(b.cont, DT)
    else:
        b.obj = ctor(np.zeros(7), DT)
        b.obj.reset_values(b.cont)
    n = len(vals)
    b.ser = np.linspace(-1, 1, n) ** 2
    b.ser_list = [0.25] * n
    b.other = eqsig.Signal(np.cos(np.arange(n) * 0.9), DT)
    b.new_vals = container(vals[::-1] * 1.5 + 1, kind)
    b.snap = {}
    take_snap(b)
    return b


def take_snap(b):
    b.snap = {'cont': snapshot(b.cont), 'ser': snapshot(b.ser), 'ser_list': snapshot(b.ser_list),
              'other': snapshot(np.asarray(b.other.values)), 'new_vals': snapshot(b.new_vals)}


def box_ops(cls):
    base, kind = c04.build_ops(cls)
    ops = collections.OrderedDict()
    for name, fn in base.items():
        if not name.startswith('mut:') or name in ('mut:reset_values', 'mut:add_series', 'mut:add_signal'):
            continue
        ops[name] = (lambda b, fn=fn: fn(b.obj))

    def reset(b):
        b.obj.reset_values(b.new_vals)
        # from now on the caller-held container of interest is new_vals
        b.cont = b.new_vals
        b.snap['cont'] = snapshot(b.cont)
    ops['mut:reset_values(caller container)'] = reset
    def assign_values(b):
        # attribute assignment: whether the library ignores, rejects or accepts it, the ownership invariants must hold afterwards
        b.obj.values = b.new_vals
    ops['mut:values = caller container (attribute assignment)'] = assign_values
    ops['mut:add_series(ndarray)'] = lambda b: b.obj.add_series(b.ser)
    ops['mut:add_series(list)'] = lambda b: b.obj.add_series(b.ser_list)
    ops['mut:add_signal'] = lambda b: b.obj.add_signal(b.other)
    return ops


def read_all(o):
    out = {}
    for rname in (c04.READS_A if isinstance(o, eqsig.AccSignal) else c04.READS_S):
        try:
            out[rname] = copy.deepcopy(getattr(copy.deepcopy(o), rname))
        except Exception as e:
            out[rname] = 'raises ' + type(e).__name__
    return out


def scribble(c):
    """overwrite a caller-held container in place"""
    if isinstance(c, np.ndarray):
        c[...] = 77
    else:
        for i in range(len(c)):
            c[i] = 77.0


def box_invariant(r, base):
    def inv(b, hist):
        probs = []
        o = b.obj
        r.n_cmp += 4
        for nm in ('cont', 'ser', 'ser_list', 'new_vals'):
            if snapshot(getattr(b, nm)) != b.snap[nm]:
                probs.append(('caller-array-modified', nm, "the caller's %s container was modified by an operation on the object" % nm))
        if snapshot(np.asarray(b.other.values)) != b.snap['other']:
            probs.append(('caller-array-modified', 'other', "the values of the Signal passed to add_signal were modified"))
        v = o.values
        if not (type(v) is np.ndarray and v.dtype.kind in 'fiu' and v.ndim == 1):
            probs.append(('values-not-numeric-array', 'values', 'values is %s%s, not a 1-d numeric ndarray'
                          % (type(v).__name__, (' of dtype %s' % v.dtype) if isinstance(v, np.ndarray) else '')))
        else:
            try:
                if len(v) != o.npts:
                    probs.append(('npts', 'npts', 'len(values)=%d but npts=%r' % (len(v), o.npts)))
                t = np.asarray(o.time)
                if t.shape != (len(v),) or not np.allclose(t, o.dt * np.arange(len(v)), rtol=1e-12, atol=0):
                    probs.append(('time', 'time', 'time is not dt*[0..npts-1]'))
            except Exception as e:
                probs.append(('npts', 'npts', 'cannot read npts/time: %s' % e))
        # vice versa: the caller overwrites everything it still holds
        r.n_cmp += 1
        b2 = copy.deepcopy(b)
        before = read_all(b2.obj)
        for nm in ('cont', 'ser', 'ser_list', 'new_vals'):
            scribble(getattr(b2, nm))
        try:
            b2.other._values[...] = 55
        except Exception:
            pass
        after = read_all(b2.obj)
        for k in before:
            same = (before[k] == after[k]) if isinstance(before[k], str) or isinstance(after[k], str) else bits_equal(np.asarray(before[k]), np.asarray(after[k]))
            if not same:
                probs.append(('object-follows-caller-array', k, 'overwriting the arrays the caller holds changed %s of the object' % k))
                break
        return probs
    return inv


# ------------------------------------------------------------------ part B: registry
def A(a, dt=0.1):
    return eqsig.AccSignal(a, dt)


def S(a, dt=0.1):
    return eqsig.Signal(a, dt)


def tile(w, n):
    w = list(w)
    if len(w) >= n:
        return w
    k = -(-n // len(w))
    return (w * k)[:n]


# (name, min length, callable(x, y)); x, y are two independent caller containers
REG = [
    ('sdof.response_series', 2, lambda x, y: sdof.response_series(x, 0.1, AUX['P'], 0.05)),
    ('sdof.nigam_and_jennings_response', 2, lambda x, y: sdof.nigam_and_jennings_response(x, 0.1, AUX['P'], 0.05)),
    ('sdof.pseudo_response_spectra', 2, lambda x, y: sdof.pseudo_response_spectra(x, 0.1, AUX['P'], 0.05)),
    ('sdof.true_response_spectra', 2, lambda x, y: sdof.true_response_spectra(x, 0.1, AUX['P'], 0.05)),
    ('sdof.single_elastic_response', 2, lambda x, y: sdof.single_elastic_response(x, 0.1, 0.3, 0.05)),
    ('sdof.response_series(4 periods)', 2, lambda x, y: sdof.response_series(x, 0.1, AUX['P4'], 0.05)),
    ('sdof.response_series(leading zero period)', 2, lambda x, y: sdof.response_series(x, 0.1, AUX['P0'], 0.05)),
    ('sdof.pseudo_response_spectra(leading zero period)', 2, lambda x, y: sdof.pseudo_response_spectra(x, 0.1, AUX['P0'], 0.05)),
    ('sdof.true_response_spectra(leading zero period)', 2, lambda x, y: sdof.true_response_spectra(x, 0.1, AUX['P0'], 0.05)),
    ('sdof.pseudo_response_spectra(4 periods)', 2, lambda x, y: sdof.pseudo_response_spectra(x, 0.1, AUX['P4'], 0.05)),
    ('frequency.calc_smooth_fa_spectrum(4 targets)', 3, lambda x, y: frequency.calc_smooth_fa_spectrum(np.arange(len(x)) * 0.5, x, AUX['SF4'])),
    ('frequency.calc_smoothing_matrix_konno_1998(4 targets)', 3, lambda x, y: frequency.calc_smoothing_matrix_konno_1998(np.arange(len(x)) * 0.5, AUX['SF4'])),
    ('sdof.absmax', 2, lambda x, y: sdof.absmax(x)),
    ('displacements.calc_velo_and_disp_from_accel_arr', 2, lambda x, y: displacements.calc_velo_and_disp_from_accel_arr(x, 0.1)),
    ('displacements.calc_velo_and_disp_from_accel_arr(trap=False)', 2, lambda x, y: displacements.calc_velo_and_disp_from_accel_arr(x, 0.1, trap=False)),
    ('displacements.velocity_and_displacement_from_acceleration', 2, lambda x, y: displacements.velocity_and_displacement_from_acceleration(x, 0.1)),
    ('im.calc_sig_dur_vals', 3, lambda x, y: im.calc_sig_dur_vals(x, 0.1, 0.05, 0.95, se=True)),
    ('im.calc_peak', 2, lambda x, y: im.calc_peak(x)),
    ('im._raw_calc_arias_intensity', 2, lambda x, y: im._raw_calc_arias_intensity(x, 0.1)),
    ('im.calc_n_cyc_array_w_power_law', 2, lambda x, y: im.calc_n_cyc_array_w_power_law(x, 1.0, 0.3)),
    ('im.calc_cyc_amp_array_w_power_law', 2, lambda x, y: im.calc_cyc_amp_array_w_power_law(x, 5, 0.3)),
    ('im.calc_cyc_amp_gm_arrays_w_power_law', 2, lambda x, y: im.calc_cyc_amp_gm_arrays_w_power_law(x, y, 5, 0.3)),
    ('im.calc_cyc_amp_combined_arrays_w_power_law', 2, lambda x, y: im.calc_cyc_amp_combined_arrays_w_power_law(x, y, 5, 0.3)),
    ('im.calc_cyc_amp_array_w_power_law(n_cyc array, b array)', 2, lambda x, y: im.calc_cyc_amp_array_w_power_law(x, AUX['NC'], AUX['B'])),
    ('im.calc_cyc_amp_gm_arrays_w_power_law(n_cyc array)', 2, lambda x, y: im.calc_cyc_amp_gm_arrays_w_power_law(x, y, AUX['NC'], 0.3)),
    ('im.calc_cyc_amp_combined_arrays_w_power_law(n_cyc array)', 2, lambda x, y: im.calc_cyc_amp_combined_arrays_w_power_law(x, y, AUX['NC'], 0.3)),
    ('im.calc_n_cyc_array_w_power_law(b array)', 2, lambda x, y: im.calc_n_cyc_array_w_power_law(x, 1.0, AUX['B'])),
    ('pc.get_peak_array_indices', 2, lambda x, y: pc.get_peak_array_indices(x)),
    ('pc.get_peak_array_indices(max)', 2, lambda x, y: pc.get_peak_array_indices(x, 'max')),
    ('pc.get_zero_crossings_array_indices', 2, lambda x, y: pc.get_zero_crossings_array_indices(x)),
    ('pc.get_zero_crossings_array_indices(tol)', 2, lambda x, y: pc.get_zero_crossings_array_indices(x, tol=0.5)),
    ('pc.get_zero_crossings_array_indices(tol above the smallest level)', 2, lambda x, y: pc.get_zero_crossings_array_indices(x, tol=1.5)),
    ('pc.get_switched_peak_array_indices', 2, lambda x, y: pc.get_switched_peak_array_indices(x)),
    ('pc.get_switched_peak_indices(array)', 2, lambda x, y: pc.get_switched_peak_indices(x)),
    ('pc.determine_peaks_only_delta_series', 2, lambda x, y: pc.determine_peaks_only_delta_series(x)),
    ('pc.determine_pseudo_cyclic_peak_only_series', 2, lambda x, y: pc.determine_pseudo_cyclic_peak_only_series(x)),
    ('pc.determine_indices_of_peaks_for_cleaned_array', 2, lambda x, y: pc.determine_indices_of_peaks_for_cleaned_array(x)),
    ('pc.determine_peak_only_delta_series_4_cleaned_data', 2, lambda x, y: pc.determine_peak_only_delta_series_4_cleaned_data(x)),
    ('pc.get_n_cyc_array', 2, lambda x, y: pc.get_n_cyc_array(x)),
    ('pc.get_n_cyc_array(switched)', 2, lambda x, y: pc.get_n_cyc_array(x, opt='switched', start='peak')),
    ('pc.clean_out_non_changing', 2, lambda x, y: pc.clean_out_non_changing(x)),
    ('pc.get_zero_and_peak_array_indices', 2, lambda x, y: pc.get_zero_and_peak_array_indices(x)),
    ('pc.get_zero_and_peak_array_indices(zvals)', 2, lambda x, y: pc.get_zero_and_peak_array_indices(x, y)),
    ('pc.get_major_change_indices', 3, lambda x, y: pc.get_major_change_indices(x)),
    ('average.calc_roll_av_vals(centre)', 2, lambda x, y: average.calc_roll_av_vals(x, 3, 'centre')),
    ('average.calc_roll_av_vals(forward)', 2, lambda x, y: average.calc_roll_av_vals(x, 2)),
    ('average.calc_roll_av_vals(backward)', 2, lambda x, y: average.calc_roll_av_vals(x, 2, 'backward')),
    ('average.calc_step_fn_vals_error', 3, lambda x, y: average.calc_step_fn_vals_error(x)),
    ('average.calc_step_fn_vals_error(pow=2,dir)', 3, lambda x, y: average.calc_step_fn_vals_error(x, pow=2, dir='down')),
    ('average.calc_step_fn_steps_vals', 3, lambda x, y: average.calc_step_fn_steps_vals(x)),
    ('generic.remove_poly', 3, lambda x, y: generic.remove_poly(x, 1)),
    ('generic.interp2d', 2, lambda x, y: generic.interp2d(AUX['XQ'], np.arange(len(x), dtype=float), np.vstack([np.asarray(x, dtype=float), np.asarray(y, dtype=float)]).T)),
    ('generic.interp2d(args)', 3, lambda x, y: _interp2d_args(x)),
    ('generic.interp_left', 2, lambda x, y: generic.interp_left(AUX['XQ'], np.arange(len(x), dtype=float), x)),
    ('time_shift.put_array_in_2d_array', 2, lambda x, y: time_shift.put_array_in_2d_array(x, AUX['SH'])),
    ('time_shift.put_array_in_2d_array(clip)', 2, lambda x, y: time_shift.put_array_in_2d_array(x, AUX['SH'], clip='both')),
    ('time_shift.join_values_w_shifts', 2, lambda x, y: time_shift.join_values_w_shifts(x, AUX['SH2'])),
    ('time_shift.join_values_w_shifts(sub)', 2, lambda x, y: time_shift.join_values_w_shifts(x, AUX['SH3'], jtype='sub')),
    ('time_step.interp_array_to_approx_dt(refine)', 2, lambda x, y: time_step.interp_array_to_approx_dt(x, 0.1, 0.03)),
    ('time_step.interp_array_to_approx_dt(decimate)', 4, lambda x, y: time_step.interp_array_to_approx_dt(x, 0.1, 0.3)),
    ('time_step.interp_array_to_approx_dt(same)', 2, lambda x, y: time_step.interp_array_to_approx_dt(x, 0.1, 0.1, even=False)),
    ('frequency.calc_smooth_fa_spectrum', 3, lambda x, y: frequency.calc_smooth_fa_spectrum(np.arange(len(x)) * 0.5, x, AUX['SF'])),
    ('frequency.calc_smooth_fa_spectrum(args)', 3, lambda x, y: _smooth_args(x)),
    ('frequency.calc_smoothing_matrix_konno_1998', 3, lambda x, y: _matrix_args(x)),
    ('frequency.fas2values', 2, lambda x, y: frequency.fas2values(np.asarray(x).astype(complex), 0.1)),
    ('frequency.fas2values(arg)', 2, lambda x, y: _fas_arg(x)),
    ('frequency.get_sig_array_indexes_range', 2, lambda x, y: frequency.get_sig_array_indexes_range(np.abs(np.asarray(x, dtype=float)) + 1)),
    ('stockwell.transform', 4, lambda x, y: stockwell.transform(x)),
    ('stockwell.transform_w_scipy_fft', 4, lambda x, y: stockwell.transform_w_scipy_fft(x)),
    ('stockwell.itransform(transform)', 4, lambda x, y: stockwell.itransform(stockwell.transform(x))),
    ('stockwell.itransform(arg)', 4, lambda x, y: _itransform_arg(x)),
    ('stockwell.get_max_tifq_vals_freq', 4, lambda x, y: stockwell.get_max_tifq_vals_freq(stockwell.transform(x), 0.1)),
    ('surface.trim_to_length', 3, lambda x, y: _trim_args(x, y)),
]
# functions taking a signal object; the object is built from the caller container (float only where the
# function needs floats); checked: object values unchanged, same result twice
OBJ = [
    ('im.calc_arias_intensity', 2, im.calc_arias_intensity),
    ('im.calc_cav', 2, im.calc_cav),
    ('im.calc_cav_dp', 21, im.calc_cav_dp),
    ('im.calc_isv', 2, im.calc_isv),
    ('im.calc_integral_of_abs_velocity', 2, im.calc_integral_of_abs_velocity),
    ('im.calc_cumulative_abs_displacement', 2, im.calc_cumulative_abs_displacement),
    ('im.calc_integral_of_abs_acceleration', 2, im.calc_integral_of_abs_acceleration),
    ('im.calc_unit_kinetic_energy', 2, im.calc_unit_kinetic_energy),
    ('im.calc_sig_dur', 3, lambda s: im.calc_sig_dur(s, se=True)),
    ('im.calc_sig_dur(im=cav)', 3, lambda s: im.calc_sig_dur(s, im=im.calc_cav)),
    ('im.calc_brac_dur', 2, lambda s: im.calc_brac_dur(s, 0.5, se=True)),
    ('im.max_fa_period', 2, im.max_fa_period),
    ('im.calc_bandwidth_freqs', 4, im.calc_bandwidth_freqs),
    ('im.calc_bandwidth_f_min', 4, im.calc_bandwidth_f_min),
    ('im.calc_bandwidth_f_max', 4, im.calc_bandwidth_f_max),
    ('im.calc_asi', 2, lambda s: im.calc_asi(s, periods=AUX['P3'])),
    ('im.calc_vsi', 2, lambda s: im.calc_vsi(s, periods=AUX['P3'])),
    ('im.cumulative_response_spectra', 2, lambda s: im.cumulative_response_spectra(s, 'arias_intensity', periods=AUX['P'])),
    ('im.calc_max_velocity_period', 2, im.calc_max_velocity_period),
    ('im.max_acceleration_period', 2, im.max_acceleration_period),
    ('sdof.calc_input_energy_spectrum', 2, lambda s: sdof.calc_input_energy_spectrum(s, periods=AUX['P'])),
    ('sdof.calc_input_energy_spectrum(series)', 2, lambda s: sdof.calc_input_energy_spectrum(s, periods=AUX['P'], series=True)),
    ('sdof.calc_resp_uke_spectrum', 2, lambda s: sdof.calc_resp_uke_spectrum(s, periods=AUX['P'])),
    ('surface.calc_surface_energy', 2, lambda s: surface.calc_surface_energy(s, AUX['TT'])),
    ('surface.calc_surface_energy(scalar tt, arrays red)', 2, lambda s: surface.calc_surface_energy(s, AUX['TT'], up_red=AUX['UR'], down_red=AUX['DR'], nodal=False)),
    ('surface.calc_surface_energy(nodal, arrays red)', 2, lambda s: surface.calc_surface_energy(s, AUX['TT'], up_red=AUX['UR'], down_red=AUX['DR'], nodal=True)),
    ('surface.calc_cum_abs_surface_energy(nodal, arrays red)', 2, lambda s: surface.calc_cum_abs_surface_energy(s, AUX['TT'], up_red=AUX['UR'], down_red=AUX['DR'])),
    ('surface.get_time_shift_motions(nodal, arrays red)', 2, lambda s: surface.get_time_shift_motions(s, AUX['TT'], up_red=AUX['UR'], down_red=AUX['DR'])),
    ('surface.calc_cum_abs_surface_energy', 2, lambda s: surface.calc_cum_abs_surface_energy(s, AUX['TT'], trim=True, start=True, stt=0.2)),
    ('surface.get_time_shift_motions', 2, lambda s: surface.get_time_shift_motions(s, AUX['TT'])),
    # travel times that need no padding (zero / below half a step) with scalar reductions different from 1: nothing has to be
    # allocated for the upward wave, so an in-place scaling would land in the record itself
    ('surface.calc_surface_energy(zero travel time, scalar red)', 2, lambda s: surface.calc_surface_energy(s, 0.0, up_red=0.8, down_red=0.5)),
    ('surface.calc_cum_abs_surface_energy(sub-step travel time, scalar red)', 2, lambda s: surface.calc_cum_abs_surface_energy(s, s.dt / 8, up_red=0.8, down_red=0.5, nodal=False)),
    ('surface.get_time_shift_motions(zero travel time array, scalar red)', 2, lambda s: surface.get_time_shift_motions(s, np.array([0.0]), up_red=1.25, down_red=0.5)),
    ('frequency.generate_fa_spectrum', 2, frequency.generate_fa_spectrum),
    ('frequency.generate_fa_spectrum(n_pad=False)', 2, lambda s: frequency.generate_fa_spectrum(s, n_pad=False)),
    ('frequency.calc_fa_spectrum', 2, frequency.calc_fa_spectrum),
    ('frequency.calc_fa_spectrum(p2_plus)', 2, lambda s: frequency.calc_fa_spectrum(s, p2_plus=1)),
    ('frequency.get_sig_freq_range', 4, frequency.get_sig_freq_range),
    ('frequency.calc_smooth_fa_spectrum_w_custom_matrix', 4, lambda s: frequency.calc_smooth_fa_spectrum_w_custom_matrix(s, frequency.calc_smoothing_matrix_konno_1998(s.fa_frequencies, s.smooth_fa_frequencies))),
    ('frequency.fas2signal', 4, lambda s: frequency.fas2signal(s.fa_spectrum, s.dt)),
    ('time_step.interp_to_approx_dt', 2, lambda s: time_step.interp_to_approx_dt(s, 0.03)),
    ('time_step.interp_to_approx_dt(decimate)', 4, lambda s: time_step.interp_to_approx_dt(s, 0.3)),
    ('time_step.interp_to_approx_dt(same step)', 2, lambda s: time_step.interp_to_approx_dt(s, 0.1, even=False)),
    ('time_step.resample_to_approx_dt(same step)', 2, lambda s: time_step.resample_to_approx_dt(s, 0.1, even=False)),
    ('time_step.resample_to_approx_dt', 2, lambda s: time_step.resample_to_approx_dt(s, 0.03)),
    ('time_shift.join_sig_w_time_shift', 2, lambda s: time_shift.join_sig_w_time_shift(s, AUX['TS'])),
    ('stockwell.get_max_stockwell_freq', 4, stockwell.get_max_stockwell_freq),
    ('multiple.combine_at_angle', 2, lambda s: multiple.combine_at_angle(s, s, 30)),
    ('multiple.compute_rotated(pga)', 2, lambda s: multiple.compute_rotated(s, s, parameter='pga', points=5)),
    ('multiple.compute_rotated(func)', 2, lambda s: multiple.compute_rotated(s, s, func=im.calc_cav, points=3)),
    ('average.get_section_average', 4, lambda s: average.get_section_average(s, 0, 0.3)),
    ('Signal.get_section_average', 4, lambda s: s.get_section_average(0, 0.3)),
    ('pc.get_peak_indices', 2, pc.get_peak_indices),
    ('pc.get_zero_crossings_indices', 2, pc.get_zero_crossings_indices),
    ('pc.get_switched_peak_indices', 2, pc.get_switched_peak_indices),
    ('AccSignal.response_series', 2, lambda s: s.response_series(response_times=AUX['P'])),
    ('AccSignal.gen_response_spectrum', 2, lambda s: (s.gen_response_spectrum(response_times=AUX['P']), s.s_a.copy(), s.s_v.copy(), s.s_d.copy())[1:]),
    ('Signal.gen_fa_spectrum(n)', 2, lambda s: (s.gen_fa_spectrum(n=9), s.fa_spectrum.copy(), s.fa_freqs.copy())[1:]),
    ('Signal.gen_smooth_fa_spectrum', 4, lambda s: (s.gen_smooth_fa_spectrum(band=20), s.smooth_fa_spectrum.copy())[1:]),
]
# registry entries whose probe itself returns copies / for which returning the live object is the documented behaviour
EXEMPT_SCRIBBLE = ('Signal.gen_', 'AccSignal.gen_')
# public callables deliberately not in the registry
EXCLUDE = {
    'plotting / need matplotlib': ['stockwell.plot_stock', 'stockwell.plot_tifq_vals', 'stockwell.plot_fas_at_time', 'stockwell.plot_windowed_fas_at_time',
                                   'stockwell.plot_max_freq_azimuth'],
    'deprecated aliases of registered functions': ['im.calc_significant_duration', 'im.calculate_peak', 'im.calc_bracketed_duration',
                                                   'frequency.generate_smooth_fa_spectrum', 'pc.determine_indices_of_peaks_for_cleaned'],
    'file I/O (C16)': ['loader.*'],
    'scalar-only helpers / no array or signal input': ['design_spectra.*', 'time_shift.time_indices', 'time_step.time_series_from_motion',
                                                       'generic.gen_ricker_wavelet_asig', 'sdof.compute_a_and_b', 'sdof.time_the_generation_of_response_spectra',
                                                       'stockwell.generate_gaussian', 'stockwell.get_stockwell_freqs', 'stockwell.get_stockwell_times'],
    'raise on this numpy (np.trapz removed) or by design': ['im.calc_acc_rms', 'im.calc_a_rms', 'im.calc_sir', 'im.calc_vsi_temporal', 'frequency.calc_fourier_moment',
                                                            'frequency.get_bandwidth_boore_2003'],
    'slow reference implementations not part of the public workflow': ['sdof.slow_response_spectra', 'stockwell.transform_slow', 'stockwell.dep_itransform'],
}


def _trim_args(x, y):
    vals = np.pad(np.vstack([np.asarray(x, dtype=float), np.asarray(y, dtype=float)]), ((0, 0), (0, 4)))
    tts = AUX['TS']
    snaps = [snapshot(vals), snapshot(tts)]
    out = surface.trim_to_length(vals, len(x), tts, 0.1, trim=True, start=True, s2s_travel_time=0.3)
    if [snapshot(vals), snapshot(tts)] != snaps:
        raise AssertionError('MUTATED-ARG trim_to_length arguments modified')
    return out


def _interp2d_args(x):
    xs = AUX['XQ']
    xf = np.arange(len(x), dtype=float)
    f = np.vstack([np.asarray(x, dtype=float), 2 * np.asarray(x, dtype=float)]).T.copy()
    snaps = [snapshot(a) for a in (xs, xf, f)]
    out = generic.interp2d(xs, xf, f)
    if [snapshot(a) for a in (xs, xf, f)] != snaps:
        raise AssertionError('MUTATED-ARG interp2d arguments modified')
    return out


def _smooth_args(x):
    ff = np.arange(len(x)) * 0.5
    amp = np.asarray(x, dtype=float).copy()
    sf = AUX['SF']
    snaps = [snapshot(a) for a in (ff, amp, sf)]
    out = frequency.calc_smooth_fa_spectrum(ff, amp, sf)
    if [snapshot(a) for a in (ff, amp, sf)] != snaps:
        raise AssertionError('MUTATED-ARG calc_smooth_fa_spectrum arguments modified')
    return out


def _matrix_args(x):
    ff = np.arange(len(x)) * 0.5
    sf = AUX['SF']
    snaps = [snapshot(a) for a in (ff, sf)]
    out = frequency.calc_smoothing_matrix_konno_1998(ff, sf)
    if [snapshot(a) for a in (ff, sf)] != snaps:
        raise AssertionError('MUTATED-ARG calc_smoothing_matrix_konno_1998 arguments modified')
    return out


def _fas_arg(x):
    fas = np.asarray(x).astype(complex)
    s = snapshot(fas)
    out = frequency.fas2values(fas, 0.1)
    if snapshot(fas) != s:
        raise AssertionError('MUTATED-ARG fas2values argument modified')
    return out


def _itransform_arg(x):
    st = stockwell.transform(np.asarray(x, dtype=float))
    s = snapshot(st)
    out = stockwell.itransform(st)
    if snapshot(st) != s:
        raise AssertionError('MUTATED-ARG itransform argument modified')
    return out


def uncovered():
    """public callables of eqsig that are in neither the registry nor the exclusion list"""
    mods = {'sdof': sdof, 'im': im, 'surface': surface, 'stockwell': stockwell, 'displacements': displacements, 'average': average,
            'frequency': frequency, 'generic': generic, 'pc': pc, 'time_shift': time_shift, 'time_step': time_step, 'multiple': multiple,
            'design_spectra': design_spectra}
    reg = ' '.join(n for n, _, _ in REG + OBJ)
    exc = [e for es in EXCLUDE.values() for e in es]
    out = []
    for mn, m in mods.items():
        for name, f in sorted(vars(m).items()):
            if not inspect.isfunction(f) or f.__module__ != m.__name__ or name.startswith('__'):
                continue
            q = '%s.%s' % (mn, name)
            if (q in reg) or (q in exc) or ('%s.*' % mn in exc):
                continue
            if name.startswith('_') and q not in reg:
                continue
            out.append(q)
    return out


# ------------------------------------------------------------------ framework glue
def build(tier, seed):
    quick = tier == 'quick'
    depth = 2 if quick else 3
    L = 4 if quick else 6
    cases = []
    for cls in ('Signal', 'AccSignal'):
        for kind in CONTAINERS:
            for entry in ('constructor', 'reset_values'):
                for first in box_ops(cls):
                    cases.append({'part': 'A', 'cls': cls, 'container': kind, 'entry': entry, 'first': first, 'depth': depth})
    for kind in CONTAINERS:
        for nsig in (2, 3):
            cases.append({'part': 'A-cluster', 'container': kind, 'nsig': nsig})
    ws = [list(w) for w in words((-1, 0, 2), 2, L, nonzero=True)]
    CH = 3
    for i in range(0, len(ws), CH):
        cases.append({'part': 'B', 'words': ws[i:i + CH]})
    return {
        'rule_more': 'B also: every registered object-taking function called, the object edited by each mutator of the C04 alphabet in turn, called again vs a fresh object with the same values (words of length 3); argument arrays refilled in place between two calls; a result held for one argument while the function is called with another',
        'cases': cases,
        'rule': 'A: every mutator sequence of length <= %d after {constructor, reset_values} x {Signal, AccSignal} x caller container '
                '{float64, int64, list} (+ Cluster.time_match/same_start); B: %d registered array-level and %d object-level public functions x '
                'every non-zero record over {-1,0,2} of length 2..%d (tiled to the minimum length of the function) x {float64, int64, list}; '
                'non-trivial = (function, record, container) call that returned a result / mutator transition that changed the values'
                % (depth, len(REG), len(OBJ), L),
        'bounds': {'mutator_depth': depth, 'max_len': L, 'alphabet': [-1, 0, 2], 'registry_array_functions': len(REG),
                   'registry_object_functions': len(OBJ), 'excluded': EXCLUDE, 'uncovered_public_callables': uncovered()},
        'required_classes': ['A:constructor', 'A:reset_values', 'A:list', 'A:i64', 'A:transition-changed-values', 'A-cluster:time_match-shifted',
                             'B:returned', 'B:raised-both-times', 'B:list-input', 'B:int-input', 'B:history', 'B:A-B-A', 'B:A-B-A-records', 'B:after-every-edit', 'B:buffer-refilled-in-place', 'B:earlier-result-held', 'B:all-functions-then-again-in-reverse-order'],
        'assumptions': ['purity is decided for the functions in the explicit registry; public callables in neither the registry nor the exclusion '
                        'list are reported under bounds.uncovered_public_callables',
                        'a function that raises for an input must raise again on the second call and still leave its input unchanged'],
    }


def run_A(case, r):
    cls, kind, entry = case['cls'], case['container'], case['entry']
    base = {'cls': cls, 'container': kind, 'entry': entry}
    r.cls('A:' + entry)
    r.cls('A:' + kind)
    b = make_box(cls, kind, entry)
    inv = box_invariant(r, base)
    for p in inv(b, []):
        r.fail('ownership.' + p[0], dict(base, history=[], what=p[1]), p[2] + ' (right after %s)' % entry)
    ops = box_ops(cls)

    def on_transition(old, name, new, exc):
        if exc is not None:
            r.disabled['%s raises %s (%s record)' % (name, type(exc).__name__, kind)] += 1
            return
        try:
            if not np.array_equal(np.asarray(old.obj.values, dtype=float), np.asarray(new.obj.values, dtype=float)):
                r.cls('A:transition-changed-values')
                r.nontrivial += 1
        except Exception:
            pass
    out = osm.exact(b, ops, case['depth'], inv, first=case['first'], on_transition=on_transition)
    r.states += out['states']
    r.transitions += out['transitions']
    r.evals += out['transitions']
    for hist, p in out['violations']:
        r.fail('ownership.' + p[0], dict(base, history=hist, what=p[1]), p[2] + ' after ' + ' ; '.join(hist))


def run_cluster(case, r):
    kind, nsig = case['container'], case['nsig']
    n = 14
    master = [float((7 * i) % n) for i in range(n)]
    for lag in (-2, 0, 1):
        for mi in range(nsig):
            conts = []
            for s in range(nsig):
                if s == mi:
                    v = list(master)
                elif lag >= 0:
                    v = master[lag:] + [master[-1]] * lag
                else:
                    v = [master[0]] * (-lag) + master[:lag]
                conts.append(container(np.array(v) + (0 if s == mi else 0.0), kind))
            snaps = [snapshot(c) for c in conts]
            sub = {'container': kind, 'nsig': nsig, 'lag': lag, 'master': mi}
            ok, cl = r.call('ownership.cluster', sub, eqsig.Cluster, conts, 0.1, master_index=mi)
            if not ok:
                continue
            for opname, op in (('time_match', lambda: cl.time_match(steps=4)), ('same_start', lambda: cl.same_start(start=0, end=0.3))):
                before = [np.array(cl.signal_by_index(i).values, dtype=float) for i in range(nsig)]
                ok, _ = r.call('ownership.cluster', dict(sub, op=opname), op)
                r.transitions += 1
                r.states += 1
                if not ok:
                    continue
                if opname == 'time_match' and lag != 0:
                    if any(not np.array_equal(before[i], np.asarray(cl.signal_by_index(i).values, dtype=float)) for i in range(nsig)):
                        r.cls('A-cluster:time_match-shifted')
                        r.nontrivial += 1
                r.n_cmp += 1
                if [snapshot(c) for c in conts] != snaps:
                    r.fail('ownership.caller-array-modified', dict(sub, op=opname), "Cluster.%s modified the caller's arrays" % opname)
                for i in range(nsig):
                    sg = cl.signal_by_index(i)
                    v = sg.values
                    r.n_cmp += 1
                    if not (type(v) is np.ndarray and v.dtype.kind in 'fiu' and v.ndim == 1):
                        r.fail('ownership.values-not-numeric-array', dict(sub, op=opname, signal=i),
                               'after Cluster.%s the values of signal %d are %s, not a numeric ndarray' % (opname, i, type(v).__name__))
                    elif len(v) != sg.npts or np.asarray(sg.time).shape != (len(v),):
                        r.fail('ownership.npts', dict(sub, op=opname, signal=i), 'len(values) != npts after Cluster.%s' % opname)


def object_state(s):
    """what an analysis function taking a signal object must leave alone: the record and the object's settings"""
    st = [snapshot(np.asarray(s.values)), s.dt, s.npts, snapshot(np.asarray(s.smooth_fa_freqs))]
    if hasattr(s, 'response_times'):
        st.append(snapshot(np.asarray(s.response_times)))
    # ... and what the object derives from the record (a query that edits a cached series in place corrupts later reads)
    for rname in ('time', 'fa_spectrum', 'fa_freqs', 'velocity', 'displacement', 'pga', 'pgv', 'pgd'):
        if hasattr(type(s), rname):
            try:
                st.append(snapshot(np.asarray(getattr(s, rname))))
            except Exception as e:  # noqa
                st.append('raises ' + type(e).__name__)
    return tuple(st)


def _scribble_result(res):
    """the caller post-processes what it got back, in place"""
    if isinstance(res, (tuple, list)):
        for x in res:
            _scribble_result(x)
    elif isinstance(res, np.ndarray) and res.flags.writeable and res.size:
        try:
            res[...] = 0
        except Exception:
            pass
    elif hasattr(res, 'values') and isinstance(getattr(res, 'values', None), np.ndarray):
        _scribble_result(res.values)


HIST_MAXLEN = 4
import re  # noqa: E402
ABA_AUX = re.compile(r'4 periods|4 targets|im\.calc_asi|im\.calc_vsi|put_array_in_2d_array$')


def history_independent(r, name, fn, ctor, rec, sub):
    other = [1.0, -2.0, 0.5] + [float(v) * 0.5 + 1 for v in rec] + [0.0, 3.0]     # another record, different length
    other = tile(other, len(rec) + 5)

    def run(obj):
        try:
            return 'ok', fn(obj)
        except Exception as e:  # noqa
            return 'exc', type(e).__name__
    try:
        fresh_obj = ctor(np.array(rec, dtype=float))
        hist_obj = ctor(np.array(other, dtype=float))
    except Exception:
        return
    for rname in (c04.READS_A if isinstance(hist_obj, eqsig.AccSignal) else c04.READS_S):
        try:
            getattr(hist_obj, rname)
        except Exception:
            pass
    for mname in ('generate_cumulative_stats', 'generate_all_motion_stats'):     # deprecated public methods that store results on the object
        if hasattr(hist_obj, mname):
            try:
                getattr(hist_obj, mname)()
            except Exception:
                pass
    run(hist_obj)
    # a second history: the same length, other values (what survives a same-length edit)
    try:
        hist2 = ctor(np.array(rec, dtype=float)[::-1] * 1.5 + 0.25)
        for mname in ('generate_cumulative_stats',):
            if hasattr(hist2, mname):
                try:
                    getattr(hist2, mname)()
                except Exception:
                    pass
        run(hist2)
        hist2.reset_values(np.array(rec, dtype=float))
    except Exception:
        hist2 = None
    try:
        hist_obj.reset_values(np.array(rec, dtype=float))
    except Exception:
        return
    r.evals += 2
    a0 = run(fresh_obj)
    if hist2 is not None:
        a2 = run(hist2)
        r.n_cmp += 1
        if a0[0] == 'ok' and a2[0] == 'ok' and not bits_equal(a0[1], a2[1]):
            r.fail('purity.history-dependent', dict(sub, history='same-length record before'),
                   '%s gives a different result on an object that held another record of the same length before' % name, observed=a2[1], expected=a0[1])
    a1 = run(hist_obj)
    r.n_cmp += 1
    r.cls('B:history')
    if a0[0] != a1[0] or (a0[0] == 'exc' and a0[1] != a1[1]):
        r.fail('purity.history-dependent', sub, '%s: fresh object %s, object with a history %s' % (name, a0[0] + (':' + a0[1] if a0[0] == 'exc' else ''),
                                                                                              a1[0] + (':' + a1[1] if a1[0] == 'exc' else '')))
    elif a0[0] == 'ok' and not bits_equal(a0[1], a1[1]):
        r.fail('purity.history-dependent', sub, '%s gives a different result on an object that held another record before (same values, dt and settings now)' % name,
               observed=a1[1], expected=a0[1])


_EDIT_OPS = {}


def edit_ops(cls):
    if cls not in _EDIT_OPS:
        ops, kind = c04.build_ops(cls)
        _EDIT_OPS[cls] = [(n, f) for n, f in ops.items() if kind[n][0] == 'mut']
    return _EDIT_OPS[cls]


def after_every_edit(r, name, fn, ctor, rec, sub):
    """A third kind of history: the function was called on the object, then the object's record was changed through ONE public
    mutator (every one of the C04 alphabet in turn - incl. those that rewrite the stored array in place), then the function is
    called again.  The object now is the same input as a fresh object holding its current values: same result, bit for bit."""
    base = tile([float(v) for v in rec], max(len(rec), 24))       # the filters / windowed corrections need some length
    try:
        probe = ctor(np.array(base, dtype=float))
    except Exception:
        return
    cls = type(probe).__name__

    def run(obj):
        try:
            return 'ok', fn(obj)
        except Exception as e:  # noqa
            return 'exc', type(e).__name__
    for mname, op in edit_ops(cls):
        try:
            obj = ctor(np.array(base, dtype=float))
            obj._mc_n0 = len(base)
        except Exception:
            return
        first = run(obj)
        if first[0] == 'ok':
            _scribble_result(first[1])
        before = np.array(obj.values, dtype=float)
        try:
            op(obj)
        except Exception:
            pass
        try:
            now = np.array(obj.values)
            if now.shape == before.shape and np.array_equal(np.asarray(now, dtype=float), before):
                r.disabled['after-every-edit: mutator raised before / without changing the record'] += 1
                continue
            fresh_obj = ctor(now.copy())
        except Exception:
            r.disabled['after-every-edit: no fresh twin'] += 1
            continue
        r.evals += 2
        a1 = run(obj)
        a0 = run(fresh_obj)
        r.n_cmp += 1
        r.cls('B:after-every-edit')
        s2 = dict(sub, history='called, then ' + mname + ', then called again')
        if a0[0] != a1[0] or (a0[0] == 'exc' and a0[1] != a1[1]):
            r.fail('purity.history-dependent', s2, '%s: fresh object %s, edited object %s' % (name, a0[0] + (':' + a0[1] if a0[0] == 'exc' else ''),
                                                                                         a1[0] + (':' + a1[1] if a1[0] == 'exc' else '')))
        elif a0[0] == 'ok' and not bits_equal(a0[1], a1[1]):
            r.fail('purity.history-dependent', s2, '%s gives a different result on an object that was queried, edited by %s and queried again '
                   'than on a fresh object with the same values' % (name, mname), observed=a1[1], expected=a0[1])


def _arrays_of(x, acc):
    if isinstance(x, (tuple, list)):
        for v in x:
            _arrays_of(v, acc)
    elif isinstance(x, np.ndarray):
        acc.append(x)
    elif hasattr(x, 'values') and isinstance(getattr(x, 'values', None), np.ndarray):
        acc.append(x.values)
    return acc


def _aliases_input(res, args):
    ins = _arrays_of(list(args), []) + [AUX[k] for k in AUX]
    outs = _arrays_of(res, [])
    return any(np.shares_memory(a, b) for a in outs for b in ins if a.size and b.size)


POISON = 7.7e77


def _poison(res):
    """Between two identical calls the freed memory of result-sized blocks is filled with a sentinel: a function that returns memory it
    never wrote (np.empty and a recurrence that skips a row) then does not return the same result again.  Best effort (the allocator
    decides which block it hands out); never a source of false alarms."""
    junk = []
    for a_ in _arrays_of(res, []):
        for _ in range(3):
            try:
                junk.append(np.full(a_.shape, POISON if a_.dtype.kind in 'fc' else 119, dtype=a_.dtype))
            except Exception:
                pass
    del junk


def check_call(r, name, fn, args, snap_of0, sub, alt_args=None):
    """one purity probe: snapshot, call, compare, call again, compare results"""
    def snap_of():
        return snap_of0(), aux_snapshot()
    before = snap_of()
    r.evals += 2
    res = []
    for rep in range(2):
        try:
            if rep == 1 and res and res[0][0] == 'ok':
                _poison(res[0][1])
            out = fn(*args)
            if rep == 0 and not name.startswith(EXEMPT_SCRIBBLE):
                # compare the second call with a private copy of the first result, after overwriting the first result in place:
                # a function that hands out an internal / cached array by reference does not "return the same result again"
                keep = copy.deepcopy(out)
                r.n_cmp += 1
                if snap_of() != before:     # the input is judged before the result is touched
                    r.fail('purity.input-modified', sub, '%s modified its input%s (call 1)' % (name, '' if snap_of()[0] != before[0] else ' (an auxiliary array argument)'),
                           observed=args[0] if args else None)
                    reset_aux()
                    return
                for o_ in (out if isinstance(out, (tuple, list)) else [out]):
                    if isinstance(o_, eqsig.Signal) and _aliases_input(o_, args):
                        r.n_cmp += 1
                        r.fail('ownership.returned-signal-shares-data', sub, '%s returns a signal object that shares its data with the argument '
                               '(a signal owns its data)' % name)
                        return
                if not _aliases_input(out, args):   # a result that is a view of the caller's own input is the caller's business
                    _scribble_result(out)
                out = keep
            res.append(('ok', out))
        except AssertionError as e:
            if 'MUTATED-ARG' in str(e):
                r.n_cmp += 1
                r.fail('purity.input-modified', sub, str(e))
                return
            res.append(('exc', type(e).__name__))
        except Exception as e:  # noqa
            res.append(('exc', type(e).__name__))
        r.n_cmp += 1
        if snap_of() != before:
            r.fail('purity.input-modified', sub, '%s modified its input%s (call %d)' % (name, '' if snap_of()[0] != before[0] else ' (an auxiliary array argument)', rep + 1),
                   observed=args[0] if args else None)
            reset_aux()
            return
    # C-B-A-B: a call with look-alike auxiliary arguments (B: same lengths and end values as A, different inside) must not depend on
    # whether the call before it used A or something unrelated (C), and A must still give its first answer afterwards
    if res[0][0] == 'ok' and res[1][0] == 'ok' and ABA_AUX.search(name):
        r.evals += 4
        try:
            seq = {}
            for step, variant in enumerate(('C', 'B', 'A', 'B')):
                set_aux(variant)
                try:
                    seq[step] = ('ok', copy.deepcopy(fn(*args)))
                except Exception as e:  # noqa
                    seq[step] = ('exc', type(e).__name__)
            set_aux('A')
            r.n_cmp += 2
            r.cls('B:A-B-A')
            if seq[2][0] != 'ok' or not bits_equal(res[0][1], seq[2][1]):
                r.fail('purity.not-repeatable', sub, '%s returns a different result after intervening calls with other auxiliary arguments' % name,
                       observed=seq[2][1], expected=res[0][1])
            elif seq[1][0] != seq[3][0] or (seq[1][0] == 'ok' and not bits_equal(seq[1][1], seq[3][1])):
                r.fail('purity.not-repeatable', sub, '%s: the result for one set of auxiliary arguments depends on which look-alike set (same length and end '
                       'values) was used in the call before' % name, observed=seq[3][1], expected=seq[1][1])
        finally:
            set_aux('A')
    # A-B-A over the main argument: the same call after an intervening call on another record of the same length and type
    # (process-level state that survives between calls and is keyed by anything but the argument's content)
    if alt_args is not None and res[0][0] == 'ok' and res[1][0] == 'ok':
        r.evals += 3
        # ... and what the caller got for A stays what it is while the function answers for B (a result that is a view of a buffer the
        # function reuses is overwritten by the next call)
        try:
            held = fn(*args)
            held_copy = copy.deepcopy(held)
        except Exception:   # noqa
            held = held_copy = None
        try:
            fn(*alt_args)
        except Exception:   # noqa
            pass
        if held is not None:
            r.n_cmp += 1
            r.cls('B:earlier-result-held')
            if not bits_equal(held, held_copy):
                r.fail('purity.earlier-result-overwritten', dict(sub, sequence='r = f(A), f(B), r unchanged?'),
                       '%s: the result the caller holds for one argument changed when the function was called with another argument' % name,
                       observed=held, expected=held_copy)
        try:
            third = ('ok', copy.deepcopy(fn(*args)))
        except Exception as e:   # noqa
            third = ('exc', type(e).__name__)
        r.n_cmp += 1
        r.cls('B:A-B-A-records')
        if third[0] != 'ok' or not bits_equal(res[0][1], third[1]):
            r.fail('purity.not-repeatable', dict(sub, sequence='f(A), f(A), f(B), f(A)'),
                   '%s returns a different result for the same argument after an intervening call with another argument of the same length' % name,
                   observed=third[1], expected=res[0][1])
    # the caller's buffers refilled IN PLACE with another record between two calls (same array objects, other content): the answer is
    # the one for the content (a memo that recognises its argument by object identity answers for the old content)
    if (alt_args is not None and res[0][0] == 'ok' and res[1][0] == 'ok' and len(args) == len(alt_args)
            and all(isinstance(a_, np.ndarray) and isinstance(b_, np.ndarray) and a_.shape == b_.shape and a_.dtype == b_.dtype
                    for a_, b_ in zip(args, alt_args))):
        r.evals += 3
        try:
            want = ('ok', copy.deepcopy(fn(*alt_args)))
        except Exception as e:   # noqa
            want = ('exc', type(e).__name__)
        saved = [a_.copy() for a_ in args]
        try:
            try:
                fn(*args)                       # the last call the function has seen is one with THESE objects
            except Exception:   # noqa
                pass
            for a_, b_ in zip(args, alt_args):
                a_[...] = b_
            try:
                got = ('ok', copy.deepcopy(fn(*args)))
            except Exception as e:   # noqa
                got = ('exc', type(e).__name__)
        finally:
            for a_, s_ in zip(args, saved):
                a_[...] = s_
        r.n_cmp += 1
        r.cls('B:buffer-refilled-in-place')
        if got[0] != want[0] or (got[0] == 'ok' and not bits_equal(got[1], want[1])):
            r.fail('purity.not-repeatable', dict(sub, sequence='f(A), A[...] = B, f(A) vs f(B)'),
                   '%s: after the argument arrays were refilled in place with another record the result is not the one for their new content' % name,
                   observed=got[1], expected=want[1])
    r.n_cmp += 1
    if res[0][0] != res[1][0]:
        r.fail('purity.not-repeatable', sub, '%s: first call %s, second call %s' % (name, res[0][0], res[1][0]))
    elif res[0][0] == 'ok':
        r.cls('B:returned')
        r.nontrivial += 1
        if not bits_equal(res[0][1], res[1][1]):
            r.fail('purity.not-repeatable', sub, '%s returns a different result when called again' % name, observed=res[1][1], expected=res[0][1])
    else:
        r.cls('B:raised-both-times')
        r.disabled['%s raises %s' % (name, res[0][1])] += 1
        if res[0][1] != res[1][1]:
            r.fail('purity.not-repeatable', sub, '%s: raises %s then %s' % (name, res[0][1], res[1][1]))


def run_B(case, r):
    for w in case['words']:
        for kind in CONTAINERS:
            r.cls({'f64': 'B:float-input', 'i64': 'B:int-input', 'list': 'B:list-input'}[kind])
            for name, minlen, fn in REG:
                rec = tile(w, minlen)
                x = container(rec, kind)
                y = container(rec[::-1], kind)
                r.states += 1
                rec_b = [float(v) for v in rec[::-1]]
                rec_b = [2 - v for v in rec_b] if rec_b == [float(v) for v in rec] else rec_b        # palindromes: mirror the levels instead
                check_call(r, name, fn, (x, y), lambda: (snapshot(x), snapshot(y)), {'fn': name, 'w': w, 'container': kind},
                           alt_args=(container([int(v) for v in rec_b], kind), container(rec, kind)))
            # every registered array function once on its own argument objects, then all of them again in the opposite order on the
            # SAME objects: what one public function keeps or shares must not change what another (or itself, later) answers
            if kind == 'f64' and len(w) <= HIST_MAXLEN:
                held = {}
                firsts = {}
                for name, minlen, fn in REG:
                    rec = tile(w, minlen)
                    held[name] = (container(rec, kind), container(rec[::-1], kind))
                    try:
                        firsts[name] = ('ok', copy.deepcopy(fn(*held[name])))
                    except Exception as e:  # noqa
                        firsts[name] = ('exc', type(e).__name__)
                r.cls('B:all-functions-then-again-in-reverse-order')
                for name, minlen, fn in reversed(REG):
                    try:
                        again = ('ok', copy.deepcopy(fn(*held[name])))
                    except Exception as e:  # noqa
                        again = ('exc', type(e).__name__)
                    r.evals += 2
                    r.n_cmp += 1
                    f0 = firsts[name]
                    if f0[0] != again[0] or (f0[0] == 'exc' and f0[1] != again[1]) or (f0[0] == 'ok' and not bits_equal(f0[1], again[1])):
                        r.fail('purity.not-repeatable', {'fn': name, 'w': w, 'container': kind, 'sequence': 'every registered function, then every one again in reverse order'},
                               '%s gives a different answer for the same argument objects after the other public functions were called' % name,
                               observed=again[1], expected=f0[1])
                reset_aux()
            for name, minlen, fn in OBJ:
                rec = tile(w, minlen)
                x = container(rec, kind)
                for ctor in ((A,) if kind != 'f64' else (A, S)):
                    if ctor is S and not name.startswith(('frequency.', 'average.', 'Signal.', 'pc.', 'time_shift.')):
                        continue
                    try:
                        s = ctor(x)
                    except Exception:
                        continue
                    r.states += 1
                    # methods of the object that take new settings (periods, n, band) are settings operations by design: for
                    # them only the record is snapshot; free functions taking a signal must leave its settings alone as well
                    own_method = name.startswith(('AccSignal.', 'Signal.gen_'))
                    check_call(r, name, fn, (s,), (lambda: (snapshot(x), snapshot(np.asarray(s.values)))) if own_method else (lambda: (snapshot(x), object_state(s))),
                               {'fn': name, 'w': w, 'container': kind, 'obj': ctor.__name__})
                    # "the same result when called again", across objects: an object that reached this record through a history
                    # (everything read and this very function called while it held another record of a different length, then
                    # reset_values to this record) is the same input as a fresh object and must give the same result
                    if kind == 'f64' and not own_method and len(w) <= HIST_MAXLEN:
                        history_independent(r, name, fn, ctor, rec, {'fn': name, 'w': w, 'obj': ctor.__name__})
                    if kind == 'f64' and not own_method and len(w) == 3 and w[0] != 0 and w[1] != w[0]:
                        after_every_edit(r, name, fn, ctor, rec, {'fn': name, 'w': w, 'obj': ctor.__name__})


def run_case(case):
    r = Res()
    if case['part'] == 'A':
        run_A(case, r)
    elif case['part'] == 'A-cluster':
        run_cluster(case, r)
    else:
        run_B(case, r)
    return r


def describe(case):
    return case


def snippet(case, v):
    s = v.get('sub') or {}
    if 'fn' in s:
        return ("# purity probe: call %s on the record below (container %s) and compare the argument before/after, then call again\n"
                "w = %r\n" % (s.get('fn'), s.get('container'), s.get('w')))
    return ("import sys; sys.path.insert(0, '/verif'); sys.path.insert(0, '/repo')\nfrom mcheck.props import c05\n"
            "b = c05.make_box(%r, %r, %r); ops = c05.box_ops(%r)\nfor n in %r: ops[n](b)\n"
            "print(type(b.obj.values), b.cont)\n" % (s.get('cls'), s.get('container'), s.get('entry'), s.get('cls'), s.get('history')))
