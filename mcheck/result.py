"""Per-case result accumulator used by every property module's run_case()."""
import collections
import json
import traceback

from .compare import close, same_ints, jsonable, short

MAX_VIOL_PER_CASE = 2000


def canon(x):
    return json.dumps(jsonable(x), sort_keys=True, separators=(',', ':'))


class Res(object):
    def __init__(self):
        self.n_cmp = 0          # implementation-vs-reference comparisons made
        self.evals = 0          # executions of the implementation
        self.states = 0
        self.transitions = 0
        self.nontrivial = 0     # distinct non-trivial sub-cases (module-defined rule)
        self.classes = collections.Counter()
        self.viol = []
        self.overflow = 0
        self.disabled = collections.Counter()   # transitions disabled / preconditions not met

    # -- bookkeeping ---------------------------------------------------------------
    def cls(self, name, n=1):
        self.classes[name] += n

    def fail(self, claim, sub, msg, err=None, observed=None, expected=None):
        if len(self.viol) >= MAX_VIOL_PER_CASE:
            self.overflow += 1
            return False
        v = {'claim': claim, 'key': claim + '|' + canon(sub), 'sub': jsonable(sub), 'msg': str(msg)[:600]}
        if err is not None:
            try:
                v['err'] = float(err)
            except Exception:
                pass
        if observed is not None:
            v['observed'] = short(observed, 400)
        if expected is not None:
            v['expected'] = short(expected, 400)
        self.viol.append(v)
        return False

    # -- comparisons ---------------------------------------------------------------
    def expect(self, claim, sub, cond, msg='', observed=None, expected=None):
        self.n_cmp += 1
        if not cond:
            return self.fail(claim, sub, msg or 'condition false', observed=observed, expected=expected)
        return True

    def expect_close(self, claim, sub, got, want, rtol=1e-9, atol=0.0, scale=None, what=''):
        self.n_cmp += 1
        ok, err, why = close(got, want, rtol=rtol, atol=atol, scale=scale)
        if not ok:
            return self.fail(claim, sub, (what + ': ' if what else '') + why, err=err, observed=got, expected=want)
        return True

    def expect_ints(self, claim, sub, got, want, what=''):
        self.n_cmp += 1
        ok, why = same_ints(got, want)
        if not ok:
            return self.fail(claim, sub, (what + ': ' if what else '') + why, observed=got, expected=want)
        return True

    def call(self, claim, sub, fn, *args, **kw):
        """Run the implementation; an exception for an in-domain input is a violation of
        the sub-claim it prevented from being observed."""
        self.evals += 1
        try:
            return True, fn(*args, **kw)
        except Exception as e:  # noqa
            tb = traceback.extract_tb(e.__traceback__)
            where = ''
            for fr in reversed(tb):
                if 'eqsig' in fr.filename:
                    where = ' at %s:%d' % (fr.filename.split('eqsig/')[-1], fr.lineno)
                    break
            self.n_cmp += 1
            self.fail(claim, sub, 'raises %s: %s%s' % (type(e).__name__, str(e)[:200], where))
            return False, None

    def as_dict(self):
        return {'n_cmp': self.n_cmp, 'evals': self.evals, 'states': self.states,
                'transitions': self.transitions, 'nontrivial': self.nontrivial,
                'classes': dict(self.classes), 'viol': self.viol, 'overflow': self.overflow,
                'disabled': dict(self.disabled)}
