"""Scanning reference models for C11-C13: run compression, turning points, zero crossings,
excursions.  Plain loops over samples, nothing vectorised, nothing shared with eqsig."""


def runs(x):
    """[(start_index, value)] of maximal constant runs."""
    out = []
    for i, v in enumerate(x):
        if not out or out[-1][1] != v:
            out.append((i, v))
    return out


def turning_points(x):
    """(indices, kinds): index 0, first sample of every run that is a strict local extremum
    of the run sequence, first sample of the final run; kinds[i] in {'max','min'} (kind of the
    two end points from the adjacent run).  Requires a non-constant series."""
    rs = runs(x)
    idx = [rs[0][0]]
    kinds = ['max' if rs[1][1] < rs[0][1] else 'min']
    for k in range(1, len(rs) - 1):
        a, b, c = rs[k - 1][1], rs[k][1], rs[k + 1][1]
        if b > a and b > c:
            idx.append(rs[k][0])
            kinds.append('max')
        elif b < a and b < c:
            idx.append(rs[k][0])
            kinds.append('min')
    idx.append(rs[-1][0])
    kinds.append('max' if rs[-2][1] < rs[-1][1] else 'min')
    return idx, kinds


def check_peak_structure(x, got):
    """Direct transcription of the C11 statement; returns list of error strings."""
    errs = []
    n = len(x)
    if len(got) < 2:
        return ['fewer than two indices reported']
    if any(b <= a for a, b in zip(got, got[1:])):
        errs.append('not strictly ascending')
        return errs
    if got[0] != 0:
        errs.append('does not begin at index 0')
    if got[-1] < 0 or got[-1] >= n:
        return errs + ['index out of range']
    last = got[-1]
    # first sample of the final constant run
    if any(x[j] != x[last] for j in range(last, n)) or (last > 0 and x[last - 1] == x[last]):
        errs.append('does not end at the first sample of the final constant run')
    prev_dir = 0
    for a, b in zip(got, got[1:]):
        seg = x[a:b + 1]
        up = all(q >= p for p, q in zip(seg, seg[1:]))
        dn = all(q <= p for p, q in zip(seg, seg[1:]))
        if not (up or dn):
            errs.append('not monotone between %d and %d' % (a, b))
            continue
        d = 1 if x[b] > x[a] else (-1 if x[b] < x[a] else 0)
        if d == 0:
            errs.append('no movement between %d and %d' % (a, b))
        elif prev_dir != 0 and d == prev_dir:
            errs.append('direction does not alternate at %d' % a)
        prev_dir = d
    return errs


def zero_crossings(x, keep_adj):
    out = {0}
    for i in range(len(x)):
        if x[i] == 0:
            if keep_adj or i == 0 or x[i - 1] != 0:
                out.add(i)
        elif i > 0 and x[i] * x[i - 1] < 0:
            out.add(i)
    return sorted(out)


def excursions(x):
    """maximal runs of samples of one strict sign: [(sign, [indices])]"""
    ex = []
    cur = None
    for i, v in enumerate(x):
        s = (v > 0) - (v < 0)
        if s == 0:
            cur = None
            continue
        if cur is None or cur[0] != s:
            cur = (s, [i])
            ex.append(cur)
        else:
            cur[1].append(i)
    return ex


def check_switched(x, got):
    """Direct transcription of the C12 switched-peak statement; returns list of (tag, msg)."""
    errs = []
    n = len(x)
    if any((not 0 <= i < n) for i in got):
        return [('range', 'index out of range')]
    if any(b <= a for a, b in zip(got, got[1:])):
        errs.append(('ascending', 'not strictly ascending'))
    gs = set(got)
    tp = set(turning_points(x)[0])
    for s, idxs in excursions(x):
        inside = [i for i in idxs if i in gs]
        first = '(excursion starts at index 0)' if idxs[0] == 0 else ''
        if len(inside) != 1:
            errs.append(('one-per-excursion', 'excursion %r contains %d reported indices %s' % (idxs, len(inside), first)))
        else:
            m = max(abs(x[i]) for i in idxs)
            if abs(x[inside[0]]) != m:
                errs.append(('largest-abs', 'excursion %r reported at %d (|%r|) but largest |value| is %r %s'
                             % (idxs, inside[0], x[inside[0]], m, first)))
    for i in got:
        if x[i] == 0 and i not in tp:
            errs.append(('zero-turning', 'index %d has value 0 and is not a turning point' % i))
    for a, b in zip(got, got[1:]):
        if x[a] * x[b] > 0:
            errs.append(('alternate', 'consecutive indices %d,%d share a strict sign' % (a, b)))
    big = max(abs(v) for v in x)
    if not any(abs(x[i]) == big for i in got):
        errs.append(('global-max', 'global absolute maximum not included'))
    return errs
