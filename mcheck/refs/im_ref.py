"""Exact-rational reference models for the cumulative intensity measures (C09) and the
threshold-crossing durations (C10).

Written from the property statements, in scalar loops over `fractions.Fraction` / Python
ints.  Nothing here imports eqsig, numpy or scipy.
"""
import math
from fractions import Fraction

# statement of C09: "Arias = pi/(2*9.81)*trapezoid(a^2)"
ARIAS_CONST = math.pi / (2 * 9.81)
G = Fraction(981, 100)


def trap_running(y, h):
    """Running trapezoid integral of the samples y with step h; element 0 is 0."""
    out = [Fraction(0)]
    for i in range(1, len(y)):
        out.append(out[-1] + h * (y[i] + y[i - 1]) / 2)
    return out


def rect_running(y, h):
    """Running rectangle sum: element k is h * (y_0 + ... + y_k)."""
    out = []
    s = Fraction(0)
    for v in y:
        s += h * v
        out.append(s)
    return out


def quadrature_measures(w, h):
    """All quadrature-defined cumulative measures of the record w (ints / Fractions) with
    step h (Fraction).  Returns {name: [Fraction, ...]}; 'arias' is the rational part
    trapezoid(a^2) (multiply by ARIAS_CONST)."""
    a = [Fraction(x) for x in w]
    v = trap_running(a, h)                      # velocity: trapezoid integral of the record (C08)
    out = {}
    out['arias'] = trap_running([x * x for x in a], h)
    out['cav'] = trap_running([abs(x) for x in a], h)
    out['isv'] = trap_running([x * x for x in v], h)
    out['int_abs_acc'] = rect_running([abs(x) for x in a], h)
    out['int_abs_vel'] = rect_running([abs(x) for x in v], h)
    # unit kinetic energy: summed |change of 0.5*v*|v||, the first change counted from rest
    ke = [x * abs(x) / 2 for x in v]
    uke = []
    s = Fraction(0)
    prev = Fraction(0)
    for k in ke:
        s += abs(k - prev)
        prev = k
        uke.append(s)
    out['unit_kinetic_energy'] = uke
    return out


def cav_dp_reference(lv100, n_per_sec, h):
    """Standardised CAV bounds for a record given in units of 0.01 g (ints, sign irrelevant:
    |lv100[i]| = 100*|a_i|/g).  One-second windows [i, i+1] s, i < floor(duration), each
    including both of its end samples; a window qualifies when one of its samples reaches
    0.025 g.  Returns a dict: hi = sum of the windowed trapezoid |a| integrals (in g*s) over
    the qualifying windows, lo = the same sum less one (the last) trapezoid panel per window,
    cav_g = trapezoid |a| integral of the whole record over g, nq / nwin = number of
    qualifying / all windows, end_decides = some window qualifies only through its very last
    sample, skipped_nonzero = some non-qualifying window has a non-zero integral."""
    n = len(lv100)
    x = [abs(v) for v in lv100]
    nwin = (n - 1) // n_per_sec
    lo2 = 0          # in units of (0.01 g) * h / 2
    hi2 = 0
    nq = 0
    end_decides = False
    skipped_nonzero = False
    for i in range(nwin):
        seg = x[i * n_per_sec:(i + 1) * n_per_sec + 1]
        full = 0
        for j in range(1, len(seg)):
            full += seg[j] + seg[j - 1]
        if 2 * max(seg) >= 5:          # some sample of the window reaches 0.025 g
            nq += 1
            hi2 += full
            lo2 += full - (seg[-1] + seg[-2])
            if 2 * max(seg[:-1]) < 5:
                end_decides = True
        elif full:
            skipped_nonzero = True
    tot2 = 0
    for j in range(1, n):
        tot2 += x[j] + x[j - 1]
    u = h / 200
    return {'lo': lo2 * u, 'hi': hi2 * u, 'cav_g': tot2 * u, 'nq': nq, 'nwin': nwin,
            'end_decides': end_decides, 'skipped_nonzero': skipped_nonzero}


def threshold_signs(cum, fr):
    """sign(cum_i - fr*total) for every i, exactly (cum: ints/Fractions, fr: Fraction)."""
    total = cum[-1]
    num, den = fr.numerator, fr.denominator
    t = num * total
    out = []
    for c in cum:
        d = c * den - t
        out.append(1 if d > 0 else (-1 if d < 0 else 0))
    return out


def crossing_sets(sg_s, sg_e):
    """From the sign lists for the lower and the upper fraction: (inside, tie_lo, tie_hi),
    inside = indices strictly between the two fractions of the total, tie_lo = indices
    exactly ON the lower fraction (and strictly below the upper), tie_hi = exactly ON the
    upper fraction (and strictly above the lower)."""
    inside = []
    tie_lo = []
    tie_hi = []
    for i in range(len(sg_s)):
        a = sg_s[i]
        b = sg_e[i]
        if a > 0 and b < 0:
            inside.append(i)
        elif a == 0 and b < 0:
            tie_lo.append(i)
        elif b == 0 and a > 0:
            tie_hi.append(i)
    return inside, tie_lo, tie_hi


def exceed_indices(w, th):
    """Indices of the samples whose absolute value strictly exceeds th (exact)."""
    return [i for i, x in enumerate(w) if abs(Fraction(x)) > th]
