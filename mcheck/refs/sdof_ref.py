"""40-digit reference for the elastic SDOF oscillator  u'' + 2 xi w u' + w^2 u = a(t),
a(t) the linear interpolant of the record, zero initial state (C01-C03).

Derivation (independent of Nigam & Jennings' A/B matrices): on one step with a(t) = a0 + s t
the particular solution is  u_p(t) = (a0 + s t)/w^2 - 2 xi s / w^3  and the homogeneous
solution  e^{-xi w t} (C1 cos wd t + C2 sin wd t)  is matched to the state at the start of the
step.  Because the step map is affine-linear in (u, v, a0, a1) it is tabulated once per
(dt, T, xi) by pushing the four unit vectors through that closed form, in 40-digit arithmetic;
records are then propagated with the tabulated 2x4 map (still 40 digits).

`witness()` cross-checks the mp oracle against an np.longdouble evaluation of the same
closed form written separately, so the oracle itself has a witness.
"""
import functools

import mpmath as mp
import numpy as np

mp.mp.dps = 40
TWO_PI = 2 * mp.pi


def _closed_step(u, v, a0, a1, dtm, w, xi, wd, tau):
    """state at time tau (0 < tau <= dt) inside a step that starts in (u, v) with a = a0 + s t."""
    s = (a1 - a0) / dtm
    up0 = a0 / w ** 2 - 2 * xi * s / w ** 3
    c1 = u - up0
    c2 = (v - s / w ** 2 + xi * w * c1) / wd
    e = mp.exp(-xi * w * tau)
    c = mp.cos(wd * tau)
    sn = mp.sin(wd * tau)
    u1 = (a0 + s * tau) / w ** 2 - 2 * xi * s / w ** 3 + e * (c1 * c + c2 * sn)
    v1 = s / w ** 2 + e * ((-xi * w * c1 + wd * c2) * c + (-xi * w * c2 - wd * c1) * sn)
    return u1, v1


@functools.lru_cache(maxsize=8192)
def step_map(dt, T, xi):
    """2x4 map M with (u1, v1) = M (u0, v0, a0, a1), all mp.mpf; dt, T, xi are python floats
    taken at their exact binary values."""
    dtm = mp.mpf(dt)
    w = TWO_PI / mp.mpf(T)
    xim = mp.mpf(xi)
    wd = w * mp.sqrt(1 - xim ** 2)
    cols = []
    z = mp.mpf(0)
    o = mp.mpf(1)
    for vec in ((o, z, z, z), (z, o, z, z), (z, z, o, z), (z, z, z, o)):
        cols.append(_closed_step(vec[0], vec[1], vec[2], vec[3], dtm, w, xim, wd, dtm))
    return tuple(c[0] for c in cols), tuple(c[1] for c in cols)


def exact_series(rec, dt, T, xi):
    """Exact (40-digit) u, v at every sample instant; returns two lists of mp.mpf."""
    mu, mv = step_map(float(dt), float(T), float(xi))
    a = [mp.mpf(float(x)) for x in rec]
    u = mp.mpf(0)
    v = mp.mpf(0)
    U = [u]
    V = [v]
    for i in range(len(a) - 1):
        a0 = a[i]
        a1 = a[i + 1]
        u, v = (mu[0] * u + mu[1] * v + mu[2] * a0 + mu[3] * a1,
                mv[0] * u + mv[1] * v + mv[2] * a0 + mv[3] * a1)
        U.append(u)
        V.append(v)
    return U, V


def to_float(xs):
    return np.array([float(x) for x in xs], dtype=float)


def continuous_peaks(rec, dt, T, xi, U, V, sub=8):
    """max |u(t)|, max |v(t)| of the exact response over the sample instants and at least `sub`
    instants inside every step (never below the sampled peak)."""
    dtm = mp.mpf(float(dt))
    w = TWO_PI / mp.mpf(float(T))
    xim = mp.mpf(float(xi))
    wd = w * mp.sqrt(1 - xim ** 2)
    pu = max(abs(x) for x in U)
    pv = max(abs(x) for x in V)
    a = [mp.mpf(float(x)) for x in rec]
    # at least 16 instants per oscillator period, at offsets that are not commensurate with the
    # period (for T = dt/k the velocity vanishes at every multiple of dt/(2k))
    m = max(sub, int(np.ceil(16.0 * float(dt) / float(T))))
    taus = [dtm * (mp.mpf(j) + mp.mpf('0.381966')) / m for j in range(m)]
    for i in range(len(a) - 1):
        for tau in taus:
            u1, v1 = _closed_step(U[i], V[i], a[i], a[i + 1], dtm, w, xim, wd, tau)
            pu = max(pu, abs(u1))
            pv = max(pv, abs(v1))
    return pu, pv


def continuous_peaks_f64(rec, dt, T, xi, uf, vf, sub=8):
    """float64 version of continuous_peaks, started from the exact sample states uf, vf (the
    peak only scales a tolerance, three digits are plenty).  Vectorised over steps x instants."""
    a = np.asarray(rec, dtype=float)
    m = max(sub, int(np.ceil(16.0 * float(dt) / float(T))))
    tau = (float(dt) * (np.arange(m) + 0.381966) / m)[None, :]
    w = 2 * np.pi / float(T)
    wd = w * np.sqrt(1 - xi * xi)
    a0 = a[:-1, None]
    s = ((a[1:] - a[:-1]) / float(dt))[:, None]
    u0 = np.asarray(uf, dtype=float)[:-1, None]
    v0 = np.asarray(vf, dtype=float)[:-1, None]
    up0 = a0 / w ** 2 - 2 * xi * s / w ** 3
    c1 = u0 - up0
    c2 = (v0 - s / w ** 2 + xi * w * c1) / wd
    e = np.exp(-xi * w * tau)
    c = np.cos(wd * tau)
    sn = np.sin(wd * tau)
    u1 = (a0 + s * tau) / w ** 2 - 2 * xi * s / w ** 3 + e * (c1 * c + c2 * sn)
    v1 = s / w ** 2 + e * ((-xi * w * c1 + wd * c2) * c + (-xi * w * c2 - wd * c1) * sn)
    pu = max(float(np.max(np.abs(uf))), float(np.max(np.abs(u1))) if u1.size else 0.0)
    pv = max(float(np.max(np.abs(vf))), float(np.max(np.abs(v1))) if v1.size else 0.0)
    return pu, pv


def tolerance(dt, T, n):
    """the property's own tolerance, relative to the series peak"""
    w = 2 * np.pi / T
    return 1e-6 + 5e-8 * (dt * (n - 1)) / T + np.finfo(float).eps / (w * dt) ** 3


# ---------------------------------------------------------------------------------------
def _longdouble_series(rec, dt, T, xi):
    ld = np.longdouble
    dtm = ld(dt)
    w = ld(2) * ld(mp.nstr(mp.pi, 30)) / ld(T)
    xi = ld(xi)
    wd = w * np.sqrt(1 - xi * xi)
    e = np.exp(-xi * w * dtm)
    c = np.cos(wd * dtm)
    sn = np.sin(wd * dtm)
    u = ld(0)
    v = ld(0)
    U = [u]
    V = [v]
    a = [ld(float(x)) for x in rec]
    for i in range(len(a) - 1):
        s = (a[i + 1] - a[i]) / dtm
        up0 = a[i] / w ** 2 - 2 * xi * s / w ** 3
        c1 = u - up0
        c2 = (v - s / w ** 2 + xi * w * c1) / wd
        u1 = a[i + 1] / w ** 2 - 2 * xi * s / w ** 3 + e * (c1 * c + c2 * sn)
        v1 = s / w ** 2 + e * ((-xi * w * c1 + wd * c2) * c + (-xi * w * c2 - wd * c1) * sn)
        u, v = u1, v1
        U.append(u)
        V.append(v)
    return np.array(U, dtype=ld), np.array(V, dtype=ld)


def witness():
    """Independent check of the oracle: (i) against a longdouble evaluation, (ii) against the ODE
    itself (energy balance d/dt(v^2/2 + w^2 u^2/2) + 2 xi w v^2 = a v, integrated by Simpson on
    the closed form inside one step).  Returns list of problems (empty = fine)."""
    bad = []
    if np.finfo(np.longdouble).eps > 1e-18:
        ld_ok = False
    else:
        ld_ok = True
    for rec in ((1, 0, -1, 2), (0, 1, 1, 0, 0, -2), (1, -1)):
        for dt, T, xi in ((0.01, 0.2, 0.05), (0.5, 0.25, 0.0), (0.01, 1.0, 0.9), (1.0, 6.0, 0.5), (0.005, 0.0295, 0.2)):
            U, V = exact_series(rec, dt, T, xi)
            if ld_ok:
                lu, lv = _longdouble_series(rec, dt, T, xi)
                amax = max(abs(x) for x in rec)
                wf = 2 * np.pi / T
                pk = max(float(max(abs(x) for x in U)), 1e-3 * amax / wf ** 2)
                pkv = max(float(max(abs(x) for x in V)), 1e-3 * amax / wf)
                du = max(abs(float(mp.mpf(float(a)) - b)) for a, b in zip(lu, U)) / pk
                dv = max(abs(float(mp.mpf(float(a)) - b)) for a, b in zip(lv, V)) / pkv
                if du > 1e-12 or dv > 1e-12:
                    bad.append('mp oracle vs longdouble differ: %r %r' % ((rec, dt, T, xi), (du, dv)))
            # residual of the ODE at the sample instants using one-sided closed-form derivatives:
            # v must be the derivative of u: compare (u(t+h)-u(t-h))/2h inside a step with v
            dtm = mp.mpf(dt)
            w = TWO_PI / mp.mpf(T)
            xim = mp.mpf(xi)
            wd = w * mp.sqrt(1 - xim ** 2)
            a = [mp.mpf(x) for x in rec]
            for i in range(len(rec) - 1):
                tau = dtm / 3
                h = dtm / mp.mpf(10) ** 12
                up, vp = _closed_step(U[i], V[i], a[i], a[i + 1], dtm, w, xim, wd, tau + h)
                um, vm = _closed_step(U[i], V[i], a[i], a[i + 1], dtm, w, xim, wd, tau - h)
                u0, v0 = _closed_step(U[i], V[i], a[i], a[i + 1], dtm, w, xim, wd, tau)
                du_dt = (up - um) / (2 * h)
                dv_dt = (vp - vm) / (2 * h)
                at = a[i] + (a[i + 1] - a[i]) * tau / dtm
                res1 = abs(du_dt - v0)
                res2 = abs(dv_dt + 2 * xim * w * v0 + w ** 2 * u0 - at)
                scale = max(abs(at), abs(w ** 2 * u0), abs(v0) * w, mp.mpf(1))
                if res1 > 1e-15 * scale or res2 > 1e-15 * scale * max(w, 1):
                    bad.append('closed form violates the ODE: %r step %d residuals %s %s' % ((rec, dt, T, xi), i, mp.nstr(res1, 5), mp.nstr(res2, 5)))
    return bad
