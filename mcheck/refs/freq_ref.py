"""Reference models for the frequency-domain properties (C06, C07).

Written from the property statements, in scalar Python, sharing no code or formulation with
eqsig: the transform length N comes from integer arithmetic (bit lengths, no logarithm), the
DFT is the textbook double sum (no FFT), the Konno-Ohmachi window is evaluated pair by pair
with math.sin / math.log10.
"""
import cmath
import math
from fractions import Fraction


# ----------------------------------------------------------------------------- C06
def ceil_log2(npts):
    """Smallest e with 2**e >= npts (npts >= 1), integer arithmetic only."""
    return (int(npts) - 1).bit_length()


def is_pow2(n):
    return n >= 1 and (n & (n - 1)) == 0


def n_rule(npts, p2_plus=None, n=None, padded=True):
    """Transform length N of the statement: the requested n; else 2^(ceil(log2 npts)+p2_plus)
    (p2_plus = 0: next power of two >= npts); the unpadded array-level variant uses N = npts."""
    if n is not None:
        return int(n)
    if not padded:
        return int(npts)
    return (1 << ceil_log2(npts)) << int(p2_plus or 0)


def twiddles(N):
    """exp(-2 pi i m / N) for m = 0..N-1 (exact values at the quarter points)."""
    out = []
    for m in range(N):
        if (4 * m) % N == 0:
            out.append((1, -1j, -1, 1j)[(4 * m) // N])
        else:
            out.append(cmath.exp(-2j * math.pi * m / N))
    return out


def naive_dft(x, N, bins):
    """X_k = sum_{t=0}^{N-1} xpad[t] exp(-2 pi i k t / N) for k in bins; xpad = x followed by
    N - len(x) zeros.  Explicit double sum."""
    assert len(x) <= N
    xpad = list(x) + [0] * (N - len(x))
    tw = twiddles(N)
    out = []
    for k in bins:
        acc = 0j
        for t in range(N):
            xt = xpad[t]
            if xt:
                acc += xt * tw[(k * t) % N]
        out.append(acc)
    return out


def fa_reference(x, dt, N):
    """(spectrum for bins 0..floor(N/2)-1, frequencies k/(N dt), the bins above them up to
    floor(N/2) that a one-sided energy sum needs: the Nyquist bin for even N, bin (N-1)/2 for odd N)."""
    pts = N // 2
    X = naive_dft(x, N, range(0, pts + 1))
    spec = [dt * v for v in X[:pts]]
    freqs = [k / (N * dt) for k in range(pts)]
    top = dt * X[pts]
    return spec, freqs, top


def parseval_rhs(spec_one_sided, top, N, dt):
    """(1/(N dt)) * sum_{k=0}^{N-1} |F_k|^2 from the one-sided spectrum (bins 0..floor(N/2)-1) and the
    reference value of bin floor(N/2) (counted once for even N - it is its own mirror - twice for odd N)."""
    s = abs(spec_one_sided[0]) ** 2
    for v in spec_one_sided[1:]:
        s += 2 * abs(v) ** 2
    if N % 2 == 0:
        s += abs(top) ** 2
    else:
        s += 2 * abs(top) ** 2
    return s / (N * dt)


def padded_minus_mean_and_nyquist(x, N):
    """Exact (Fraction) padded record with its mean and (even N) Nyquist component removed."""
    xpad = [Fraction(v) for v in x] + [Fraction(0)] * (N - len(x))
    mean = sum(xpad) / N
    if N % 2 == 0:
        nyq = sum(v if t % 2 == 0 else -v for t, v in enumerate(xpad)) / N
    else:
        nyq = Fraction(0)
    return [v - mean - (nyq if t % 2 == 0 else -nyq) for t, v in enumerate(xpad)]


# ----------------------------------------------------------------------------- C07
def ko_weight(f, fc, b):
    """Konno-Ohmachi (1998) window: [sin(b log10(f/fc)) / (b log10(f/fc))]^4, 1 at f = fc."""
    if f == fc:
        return 1.0
    x = b * math.log10(f / fc)
    if x == 0.0:
        return 1.0
    return (math.sin(x) / x) ** 4


def ko_matrix(fpos, targets, b):
    """Column-normalised weights W[i][j] for Fourier frequency fpos[i] and target targets[j]."""
    cols = []
    for fc in targets:
        col = [ko_weight(f, fc, b) for f in fpos]
        s = math.fsum(col)
        cols.append([w / s for w in col])
    return [[cols[j][i] for j in range(len(targets))] for i in range(len(fpos))]


def ko_smooth(W, amps):
    """Weighted mean of |amplitude| for every target (W from ko_matrix)."""
    m = len(amps)
    nt = len(W[0]) if W else 0
    return [math.fsum(abs(amps[i]) * W[i][j] for i in range(m)) for j in range(nt)]
