"""Runner: enumerates a property's bounded space over a process pool, evaluates the oracle on
every element, writes evidence and replay artefacts, applies the known-findings file.

Exit codes: 0 property held on everything explored (KNOWN-FINDING lines allowed);
1 at least one unlisted violation (VIOLATION property=<id> replay=<path> lines);
2 the check itself could not do its job (missing dependency, vacuity guard, wall cap).
"""
import hashlib
import importlib
import json
import multiprocessing as mp
import os
import random
import signal
import sys
import time
import traceback

HERE = os.path.dirname(os.path.dirname(os.path.abspath(__file__)))
ALL = ['C%02d' % i for i in range(1, 21)]
MAX_REPLAYS = 12
MAX_ITEMISED = 300000   # itemised violations kept in memory per run (a badly broken tree produces millions)

_mod = None


class CaseTimeout(Exception):
    pass


def _alarm(signum, frame):
    raise CaseTimeout()


def _init(pid):
    global _mod
    signal.signal(signal.SIGINT, signal.SIG_IGN)
    _mod = importlib.import_module('mcheck.props.' + pid.lower())
    if hasattr(_mod, 'worker_init'):
        _mod.worker_init()


def _run(args):
    idx, case = args
    timeout = int(getattr(_mod, 'CASE_TIMEOUT', 120))
    signal.signal(signal.SIGALRM, _alarm)
    signal.alarm(timeout)
    try:
        r = _mod.run_case(case)
        d = r.as_dict() if hasattr(r, 'as_dict') else r
    except CaseTimeout:
        d = {'n_cmp': 0, 'evals': 1, 'states': 0, 'transitions': 0, 'nontrivial': 0, 'classes': {},
             'overflow': 0, 'disabled': {},
             'viol': [{'claim': 'no-result', 'key': 'no-result|%d' % idx,
                       'sub': None, 'msg': 'case did not finish within %d s' % timeout}]}
    except Exception as e:  # an escape from run_case: report it against the case
        d = {'n_cmp': 0, 'evals': 1, 'states': 0, 'transitions': 0, 'nontrivial': 0, 'classes': {},
             'overflow': 0, 'disabled': {},
             'viol': [{'claim': 'crash', 'key': 'crash|%d' % idx, 'sub': None,
                       'msg': 'unhandled %s: %s\n%s' % (type(e).__name__, e, traceback.format_exc()[-1500:])}]}
    finally:
        signal.alarm(0)
    return idx, d


def load_module(pid):
    return importlib.import_module('mcheck.props.' + pid.lower())


def write_replay(pid, case, v, mod):
    from .compare import jsonable
    dig = hashlib.sha1((v['key']).encode()).hexdigest()[:12]
    path = os.path.join(os.environ.get('MC_REPLAY_DIR') or os.path.join(HERE, 'replays'), '%s-%s.json' % (pid, dig))
    doc = {'property': pid, 'claim': v['claim'], 'key': v['key'], 'sub': v.get('sub'), 'msg': v['msg'],
           'observed': v.get('observed'), 'expected': v.get('expected'), 'err': v.get('err'),
           'case': jsonable(case)}
    if hasattr(mod, 'snippet'):
        try:
            doc['repro'] = mod.snippet(case, v)
        except Exception:
            pass
    os.makedirs(os.path.dirname(path), exist_ok=True)
    with open(path, 'w') as f:
        json.dump(doc, f, indent=1)
    return path


def run_check(pid, tier, opts):
    from . import findings
    from .compare import jsonable
    t0 = time.time()
    seed = int(os.environ.get('VERIF_SEED', '0') or 0)
    try:
        mod = load_module(pid)
    except ImportError as e:
        sys.stderr.write('mcheck: cannot load check for %s: %s\n' % (pid, e))
        traceback.print_exc()
        return 2
    import tempfile
    import shutil
    import atexit
    run_tmp = tempfile.mkdtemp(prefix='mc_run_')       # scratch space for checks that write real files (C16); removed below
    os.environ['MC_RUN_TMP'] = run_tmp
    atexit.register(shutil.rmtree, run_tmp, True)
    spec = mod.build(tier, seed)
    cases = spec['cases']
    n = len(cases)
    workers = int(os.environ.get('MC_WORKERS', '16'))
    cap = float(os.environ.get('MC_WALL_CAP', '900' if tier == 'quick' else '14400'))
    tot = {'n_cmp': 0, 'evals': 0, 'states': 0, 'transitions': 0, 'nontrivial': 0, 'overflow': 0}
    classes = {}
    disabled = {}
    viols = []   # (idx, v)
    capped = False
    chunks = max(1, min(64, n // (workers * 16) if n >= workers * 16 else 1))
    if workers <= 1 or n <= 1:
        _init(pid)
        it = (_run((i, c)) for i, c in enumerate(cases))
        pool = None
    else:
        ctx = mp.get_context('fork')
        pool = ctx.Pool(workers, initializer=_init, initargs=(pid,))
        it = pool.imap(_run, list(enumerate(cases)), chunksize=chunks)
    done = 0
    try:
        for idx, d in it:
            done += 1
            for k in tot:
                tot[k] += d.get(k, 0)
            for k, c in d.get('classes', {}).items():
                classes[k] = classes.get(k, 0) + c
            for k, c in d.get('disabled', {}).items():
                disabled[k] = disabled.get(k, 0) + c
            for v in d['viol']:
                if len(viols) < MAX_ITEMISED:
                    viols.append((idx, v))
                else:
                    tot['overflow'] += 1      # counted, reported as "further violations", never silently dropped
            if time.time() - t0 > cap:
                capped = True
                break
    finally:
        if pool is not None:
            pool.terminate()
            pool.join()
        shutil.rmtree(run_tmp, ignore_errors=True)

    # --- known findings -------------------------------------------------------------
    known, fixed = findings.load(pid)
    unlisted = []
    for idx, v in viols:
        hit = None
        for f in known:
            if f.matches(v):
                hit = f
                break
        if hit is None:
            unlisted.append((idx, v))
        else:
            hit.matched += 1
    if opts.get('dump_keys'):
        with open(opts['dump_keys'], 'w') as f:
            for idx, v in viols:
                if opts.get('dump_claim') and not v['claim'].startswith(opts['dump_claim']):
                    continue
                f.write(v['key'] + ('\t%.6g' % v['err'] if 'err' in v and v['err'] != float('inf') else '') + '\n')
        print('dumped %d violation keys to %s' % (len(viols), opts['dump_keys']))

    # --- non-vacuity ----------------------------------------------------------------
    missing = [c for c in spec.get('required_classes', []) if classes.get(c, 0) == 0]
    vacuous = (not capped) and (bool(missing) or tot['nontrivial'] < 2 or tot['n_cmp'] == 0)
    # if violations prevented a class from being observed do not call that vacuity
    if vacuous and unlisted:
        vacuous = False

    # --- output -----------------------------------------------------------------------
    rc = 0
    for f in known:
        if f.matched:
            print('KNOWN-FINDING: property=%s %s (%d cases; finding=%s)' % (pid, f.text, f.matched, f.slug))
    by_claim = {}
    for idx, v in unlisted:
        by_claim.setdefault(v['claim'], []).append((idx, v))
    written = []
    if unlisted:
        rc = 1
        # spread the replay budget over the claims; shortest / first cases first
        order = []
        lists = [sorted(vs, key=lambda t: (len(t[1]['key']), t[0])) for _, vs in sorted(by_claim.items())]
        r = 0
        while len(order) < MAX_REPLAYS and any(r < len(vs) for vs in lists):
            for vs in lists:
                if r < len(vs) and len(order) < MAX_REPLAYS:
                    order.append(vs[r])
            r += 1
        for idx, v in order:
            path = write_replay(pid, cases[idx], v, mod)
            written.append(path)
            print('VIOLATION property=%s replay=%s' % (pid, path))
            print('   claim=%s %s' % (v['claim'], v['msg'].splitlines()[0][:300]))
            print('   case=%s' % (json.dumps(jsonable(v.get('sub')))[:300],))
        print('%s: %d unlisted violations in %d claims (%s); %d replay files written'
              % (pid, len(unlisted), len(by_claim),
                 ', '.join('%s:%d' % (k, len(v)) for k, v in sorted(by_claim.items())), len(written)))
    if tot['overflow']:
        print('%s: %d further violations not itemised (per-case cap)' % (pid, tot['overflow']))
        rc = 1
    if spec.get('truncated'):
        print('%s: exploration truncated by the module (%s); result is NOT exhaustive' % (pid, spec['truncated']))
        if rc == 0:
            rc = 2
    if capped:
        print('%s: wall-clock cap of %.0f s hit after %d of %d cases; result is NOT exhaustive' % (pid, cap, done, n))
        if rc == 0:
            rc = 2
    if vacuous:
        print('%s: vacuity guard: missing outcome classes %s, nontrivial=%d, comparisons=%d'
              % (pid, missing, tot['nontrivial'], tot['n_cmp']))
        rc = 2 if rc == 0 else rc

    # --- evidence ---------------------------------------------------------------------
    rnd = random.Random(seed)
    k = min(4, n)
    sample_idx = sorted(rnd.sample(range(n), k)) if n else []
    samples = []
    for i in sample_idx:
        s = jsonable(mod.describe(cases[i]) if hasattr(mod, 'describe') else cases[i])
        txt = json.dumps(s)
        samples.append(s if len(txt) < 1500 else txt[:1500] + '...')
    cov = {
        'states': tot['states'], 'transitions': tot['transitions'],
        'traces_validated_against_impl': tot['n_cmp'],
        'samples': samples,
        'evaluations': tot['evals'],
        'distinct_nontrivial': tot['nontrivial'],
        'rule': spec.get('rule', '') + ((' || sequence / history families: ' + spec['rule_more']) if spec.get('rule_more') else ''),
        'exhaustive': (not capped) and not spec.get('truncated'),
        'pool_cases': n, 'pool_cases_done': done,
        'bounds': jsonable(spec.get('bounds', {})),
        'outcome_classes': dict(sorted(classes.items())),
        'required_classes': spec.get('required_classes', []),
        'disabled_transitions': dict(sorted(disabled.items())),
        'known_findings_matched': {f.slug: f.matched for f in known},
        'fixed_findings_on_record': len(fixed),
        'unlisted_violations': len(unlisted),
        'violations_by_claim': {k2: len(v2) for k2, v2 in sorted(by_claim.items())},
        'replays_written': written,
        'wall_cap_s': cap, 'cap_hit': capped,
        'eqsig_src': os.environ.get('EQSIG_SRC', '/repo'),
    }
    ev = {'property_id': pid, 'tier': tier, 'seed': seed, 'level': 'model_checking', 'coverage': cov,
          'assumptions': spec.get('assumptions', []), 'wall_s': round(time.time() - t0, 2),
          'violations': len(unlisted)}
    write_evidence(pid, ev, opts)
    print('%s %s: cases=%d states=%d transitions=%d comparisons=%d executions=%d nontrivial=%d classes=%d '
          'known=%d violations=%d wall=%.1fs exit=%d'
          % (pid, tier, n, tot['states'], tot['transitions'], tot['n_cmp'], tot['evals'], tot['nontrivial'],
             len(classes), sum(f.matched for f in known), len(unlisted), time.time() - t0, rc))
    return rc


def write_evidence(pid, ev, opts):
    path = opts.get('evidence') or os.path.join(HERE, 'evidence', pid + '.json')
    try:
        import jsonschema
        schema_p = '/root/.vp/EVIDENCE.schema.json'
        if not os.path.exists(schema_p):
            schema_p = os.path.join(HERE, 'mcheck', 'EVIDENCE.schema.json')
        with open(schema_p) as f:
            schema = json.load(f)
        jsonschema.validate(ev, schema)
    except ImportError:
        sys.stderr.write('mcheck: jsonschema not available (run ./setup.sh); evidence not validated\n')
    os.makedirs(os.path.dirname(path), exist_ok=True)
    tmp = path + '.tmp'
    with open(tmp, 'w') as f:
        json.dump(ev, f, indent=1, sort_keys=True)
    os.replace(tmp, path)


def replay(pid, path):
    mod = load_module(pid)
    with open(path) as f:
        doc = json.load(f)
    case = doc['case']
    if hasattr(mod, 'case_from_json'):
        case = mod.case_from_json(case)
    _init(pid)
    outs = []
    for rep in range(2):
        _, d = _run((0, case))
        outs.append(sorted((v['key'], v['msg']) for v in d['viol']))
    if outs[0] != outs[1]:
        print('replay: two runs of the same case disagree - harness non-determinism')
        return 2
    keys = [k for k, _ in outs[0]]
    if doc.get('key') in keys or (doc.get('key', '').startswith(('crash', 'no-result')) and keys):
        msg = [m for k, m in outs[0] if k == doc.get('key')] or [outs[0][0][1]]
        print('VIOLATION property=%s replay=%s' % (pid, path))
        print('   reproduced twice: %s' % msg[0].splitlines()[0][:300])
        return 1
    print('replay: violation %s not reproduced on this tree (%d other violations in the case)'
          % (doc.get('key', '')[:120], len(keys)))
    return 0


def main(argv):
    if not argv:
        print(__doc__)
        return 2
    if argv[0] == 'selfimport':
        from . import target
        print('eqsig imported from', target.eqsig.__file__)
        return 0
    pid = argv[0].upper()
    rest = argv[1:]
    opts = {}
    tier = os.environ.get('VERIF_TIER', 'quick')
    i = 0
    while i < len(rest):
        a = rest[i]
        if a in ('quick', 'thorough'):
            tier = a
        elif a == '--replay':
            return replay(pid, rest[i + 1])
        elif a == '--dump-keys':
            opts['dump_keys'] = rest[i + 1]
            i += 1
        elif a == '--dump-claim':
            opts['dump_claim'] = rest[i + 1]
            i += 1
        elif a == '--evidence':
            opts['evidence'] = rest[i + 1]
            i += 1
        else:
            sys.stderr.write('unknown argument %r\n' % a)
            return 2
        i += 1
    if pid == 'ALL':
        worst = 0
        for p in ALL:
            if os.path.exists(os.path.join(HERE, 'mcheck', 'props', p.lower() + '.py')):
                worst = max(worst, run_check(p, tier, dict(opts)))
        return worst
    return run_check(pid, tier, opts)


if __name__ == '__main__':
    sys.exit(main(sys.argv[1:]))
